#!/bin/bash
# Offline setup: verify the pre-installed tools are present; nothing is fetched or built ahead of
# time (every check rebuilds what it needs from /repo's working tree with `cargo kani`).
set -e
cd "$(dirname "$0")"
export CARGO_NET_OFFLINE=true
for t in cargo-kani cbmc cvc5 z3 python3 rsync; do
  command -v $t >/dev/null || { echo "missing tool: $t"; exit 1; }
done
cargo kani --version
mkdir -p .work evidence
echo "setup ok"
