"""Obligations of the MIR->SMT engine (E2).  See mir2smt.py for the semantics of each key.

`$name` in assume/goal terms refers to a variable or to the result of a step (SMT Int term)."""

P23, P31, P15 = 1 << 23, 1 << 31, 1 << 15


def rans_4x8_step():
    enc = "noodles-cram/src/codecs/rans_4x8/encode.rs"
    dec = "noodles-cram/src/codecs/rans_4x8/decode.rs"
    return {
        "id": "O8.2/rans4x8-step", "props": ["C08"], "tier": "quick", "crate": "noodles-cram",
        "fns": "rans_4x8::encode::state_step,rans_4x8::decode::state_step,rans_4x8::decode::state_cumulative_frequency",
        "bound": "ALL u32 states s1 with 2^11*f <= s1 < 2^19*f (= every state the encoder's renormalisation can leave, by the inductive invariant s in [2^23,2^31)), all frequencies 1<=f<=4096, all cumulative frequencies g with f+g<=4096; machine integers modelled exactly (Int + mod 2^k), every MIR overflow/div-by-zero assert is a separate query",
        "vars": {"s1": (0, 2**32 - 1), "f": (0, 65535), "g": (0, 65535)},
        "assume": ["(>= $f 1)", "(<= (+ $f $g) 4096)", "(>= $s1 (* 2048 $f))", "(< $s1 (* 524288 $f))"],
        "steps": [("x", "rans_4x8::encode::state_step", ["s1", "f", "g"]),
                  ("c", "rans_4x8::decode::state_cumulative_frequency", ["x"]),
                  ("y", "rans_4x8::decode::state_step", ["x", "f", "g"])],
        "goals": [
            ("encoded state stays in [L, 2^31)", "(and (>= $x %d) (< $x %d))" % (P23, P31)),
            ("decoder finds the symbol: g <= cumfreq(x) < g+f", "(and (>= $c $g) (< $c (+ $g $f)))"),
            ("decode step inverts encode step", "(= $y $s1)"),
        ],
        "outputs": ["x", "c", "y"],
        "sources": {"enc_step": (enc, "state_step"), "dec_step": (dec, "state_step"), "cumfreq": (dec, "state_cumulative_frequency")},
        "native_types": {"s1": "u32", "f": "u16", "g": "u16"},
        "native_eval": 'let x = enc_step(s1, f, g); println!("{} {} {}", x, cumfreq(x), dec_step(x, f, g));',
        "native_check": "let x = enc_step(s1, f, g); assert!(x >= (1 << 23) && x < (1 << 31)); let c = cumfreq(x) as u32; assert!(c >= g as u32 && c < g as u32 + f as u32); assert_eq!(dec_step(x, f, g), s1);",
        "vectors": [{"s1": 6145, "f": 3, "g": 5}, {"s1": 4095 * 524288 - 1, "f": 4095, "g": 1},
                    {"s1": 2048, "f": 1, "g": 0}, {"s1": 100 * 32768 + 37, "f": 100, "g": 3996}],
        "timeout": 60,
    }


def rans_nx16_step(bits):
    enc = "noodles-cram/src/codecs/rans_nx16/encode.rs"
    dec = "noodles-cram/src/codecs/rans_nx16/decode.rs"
    lo, hi, tot = 1 << (15 - bits), 1 << (31 - bits), 1 << bits
    return {
        "id": "O8.2/ransNx16-step-bits%d" % bits, "props": ["C08"], "tier": "quick", "crate": "noodles-cram",
        "fns": "rans_nx16::encode::state_step,rans_nx16::decode::state_step,rans_nx16::decode::state_cumulative_frequency",
        "bound": "bits=%d (concrete instance); ALL u32 states s1 with %d*f <= s1 < %d*f (what the 16-bit renormalisation leaves), all f>=1, g with f+g<=%d; exact machine-integer semantics, every MIR assert a separate query" % (bits, lo, hi, tot),
        "vars": {"s1": (0, 2**32 - 1), "f": (0, 2**32 - 1), "g": (0, 2**32 - 1)},
        "assume": ["(>= $f 1)", "(<= (+ $f $g) %d)" % tot, "(>= $s1 (* %d $f))" % lo, "(< $s1 (* %d $f))" % hi],
        "steps": [("x", "rans_nx16::encode::state_step", ["s1", "f", "g", bits]),
                  ("c", "rans_nx16::decode::state_cumulative_frequency", ["x", bits]),
                  ("y", "rans_nx16::decode::state_step", ["x", "f", "g", bits])],
        "goals": [
            ("encoded state stays in [2^15, 2^31)", "(and (>= $x %d) (< $x %d))" % (P15, P31)),
            ("decoder finds the symbol: g <= cumfreq(x) < g+f", "(and (>= $c $g) (< $c (+ $g $f)))"),
            ("decode step inverts encode step", "(= $y $s1)"),
        ],
        "outputs": ["x", "c", "y"],
        "sources": {"enc_step": (enc, "state_step"), "dec_step": (dec, "state_step"), "cumfreq": (dec, "state_cumulative_frequency")},
        "native_types": {"s1": "u32", "f": "u32", "g": "u32"},
        "native_eval": 'let x = enc_step(s1, f, g, %d); println!("{} {} {}", x, cumfreq(x, %d), dec_step(x, f, g, %d));' % (bits, bits, bits),
        "native_check": "let x = enc_step(s1, f, g, %d); assert!(x >= (1 << 15) && x < (1u32 << 31)); let c = cumfreq(x, %d); assert!(c >= g && c < g + f); assert_eq!(dec_step(x, f, g, %d), s1);" % (bits, bits, bits),
        "vectors": [{"s1": lo * 3 + 1, "f": 3, "g": 5}, {"s1": hi * (tot - 1) - 1, "f": tot - 1, "g": 1},
                    {"s1": lo, "f": 1, "g": 0}, {"s1": 100 * 4096 + 37, "f": 100, "g": tot - 100}],
        "timeout": 60,
    }


FAI_QUERY = r"re:fai::record::<impl at noodles-fasta/src/fai/record\.rs:\d+:\d+: \d+:\d+>::query"
U64 = 2**64 - 1


def fai_kernel(res, k):
    # arithmetic kernel of fai::Record::query: bb12..bb21 in the MIR of the current source (offset computed
    # in u128, then narrowed by u64::try_from, which is std and outside the kernel); the locals bound
    # here are (by the MIR) _12 = 0-based start, _13 = line_base_count, _15 = line_width, _20 = position;
    # the result _17 is the u128 offset.  If the MIR shape changes the engine reports INCONCLUSIVE
    # (fails closed).
    return (res, FAI_QUERY, [], {"entry": "bb12", "bind": {"_12": k, "_13": "lbc", "_15": "lw", "_20": "pos"}, "result": "_17"})


def fai_query_induction():
    return {
        "id": "O11.1/fai-offset-induction", "props": ["C11"], "tier": "quick", "crate": "noodles-fasta",
        "fns": "fai::Record::query (arithmetic kernel: u128 offset = position + start/line_bases*line_width + start%line_bases; narrowed by u64::try_from)",
        "bound": "ALL u64 geometries with 1 <= line_bases <= line_width and a file that fits in u64 (offset of base k+1 computable); ALL 0-based base indices k: q(0)=position, q(k+1)-q(k) = 1 inside a line and 1+(line_width-line_bases) across a line end => by induction q(k) is the byte offset of base k; exact u64 semantics, MIR asserts as separate queries",
        "vars": {"k": (0, U64), "k1": (0, U64), "lbc": (1, U64), "lw": (1, U64), "pos": (0, U64), "zero": (0, 0)},
        "assume": ["(= $k1 (+ $k 1))", "(<= $lbc $lw)",
                   # the file fits: the end of the line containing base k+1 is below 2^64
                   "(< (+ $pos (* (+ (div $k1 $lbc) 1) $lw)) 18446744073709551616)"],
        "steps": [fai_kernel("q0", "zero"), fai_kernel("qa", "k"), fai_kernel("qb", "k1")],
        "goals": [
            ("the offset of a base inside the file fits u64 (try_from succeeds)", "(< $qb 18446744073709551616)"),
            ("base 0 is at `position`", "(= $q0 $pos)"),
            ("next base inside a line is the next byte", "(=> (not (= (mod $k1 $lbc) 0)) (= $qb (+ $qa 1)))"),
            ("next base across a line end skips exactly the line terminator", "(=> (= (mod $k1 $lbc) 0) (= $qb (+ $qa 1 (- $lw $lbc))))"),
        ],
        "outputs": ["qa", "qb"],
        "sources": {},
        "native_prelude": "fn kernel(pos: u64, start: u64, lbc: u64, lw: u64) -> u128 { let line_base_count = lbc; let line_width = lw; let position = pos; /*EXTRACT*/ }",
        "native_types": {"k": "u64", "k1": "u64", "lbc": "u64", "lw": "u64", "pos": "u64", "zero": "u64"},
        "native_eval": 'println!("{} {}", kernel(pos, k, lbc, lw), kernel(pos, k1, lbc, lw));',
        "native_check": "let (a, b) = (kernel(pos, k, lbc, lw), kernel(pos, k1, lbc, lw)); if k1 % lbc != 0 { assert_eq!(b, a + 1); } else { assert_eq!(b, a + 1 + (lw - lbc) as u128); } assert_eq!(kernel(pos, 0, lbc, lw), pos as u128); assert!(b <= u64::MAX as u128);",
        "vectors": [{"k": 0, "k1": 1, "lbc": 60, "lw": 61, "pos": 7, "zero": 0}, {"k": 59, "k1": 60, "lbc": 60, "lw": 62, "pos": 100, "zero": 0},
                    {"k": 12345678, "k1": 12345679, "lbc": 80, "lw": 81, "pos": 4242, "zero": 0}],
        "native_expr": ("noodles-fasta/src/fai/record.rs", r"let pos = (u128::from\(self\.position\(\)\)\s*\+ u128::from\(start / line_base_count\) \* u128::from\(line_width\)\s*\+ u128::from\(start % line_base_count\));"),
        "timeout": 60,
    }


def fai_query_no_panic():
    q = fai_query_induction()
    q.update({
        "id": "O15.fai-query-arbitrary-record", "props": ["C15"],
        "bound": "ARBITRARY fai record as an index file can supply it (any u64 position, line_bases >= 1, line_width >= 1 -- both NonZero) and ANY 0-based start: the offset arithmetic of fai::Record::query does not panic (every MIR overflow / division assert is a query; the u128 result is then narrowed by u64::try_from -> InvalidInput)",
        "assume": [],
        "vars": {"k": (0, U64), "lbc": (1, U64), "lw": (1, U64), "pos": (0, U64)},
        "steps": [fai_kernel("qa", "k")],
        "goals": [],
        "outputs": ["qa"],
        "native_types": {"k": "u64", "lbc": "u64", "lw": "u64", "pos": "u64"},
        "native_eval": 'println!("{}", kernel(pos, k, lbc, lw));',
        "native_check": "let _ = kernel(pos, k, lbc, lw);",
        "vectors": [{"k": 0, "lbc": 60, "lw": 61, "pos": 7}, {"k": 12345678, "lbc": 80, "lw": 81, "pos": 4242}],
    })
    return q


def obligations():
    return [rans_4x8_step(), rans_nx16_step(12), rans_nx16_step(10), fai_query_induction(), fai_query_no_panic()]
