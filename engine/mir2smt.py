#!/usr/bin/env python3
"""E2: nightly MIR -> SMT-LIB (Int theory with explicit mod-2^k wrapping), decided by cvc5, z3 as a
cross-check.  Only straight-line (loop-free, branch-free apart from `assert` terminators) integer leaf
functions are supported; that is checked, not assumed: anything else raises and the obligation is
reported INCONCLUSIVE.

Per obligation (see smt_obligations.py):
  * the MIR of the crate is dumped from /repo's CURRENT source (`cargo +nightly rustc -Zunpretty=mir`),
  * the listed functions are symbolically executed; every MIR `assert` terminator (overflow, division by
    zero, shift range) becomes its own "does not panic" query,
  * the goal terms of the obligation are added, each query is `(assert (not goal))` + `(check-sat)`:
    unsat = holds for ALL values within the stated domain; sat = counterexample (replayed natively by
    compiling the functions' source text, extracted verbatim from /repo, with rustc); unknown/error =
    inconclusive,
  * the translator is validated on every run: the same source text is compiled natively and run on test
    vectors, and the SMT encoding, with the inputs fixed to those vectors, must yield the same outputs.
"""
import os, re, subprocess, sys, time, json, hashlib, shutil

WIDTH = {"u8": 8, "u16": 16, "u32": 32, "u64": 64, "u128": 128, "usize": 64, "i8": 8, "i16": 16, "i32": 32, "i64": 64, "isize": 64}


class Unsupported(Exception):
    pass


# ---------------------------------------------------------------------------------------------
# MIR parsing


def dump_mir(repo, crate, work):
    out_dir = os.path.join(work, "mir")
    os.makedirs(out_dir, exist_ok=True)
    out = os.path.join(out_dir, crate + ".mir")
    lib = os.path.join(repo, crate, "src", "lib.rs")
    env = dict(os.environ, CARGO_TARGET_DIR=os.path.join(work, "mir-target"), CARGO_NET_OFFLINE="true")
    env.pop("RUSTFLAGS", None)
    # cargo only re-runs rustc (and hence re-prints the MIR) if the crate is dirty: bump the mtime
    st = os.stat(lib)
    os.utime(lib, None)
    try:
        p = subprocess.run(["cargo", "+nightly", "rustc", "--offline", "--manifest-path", os.path.join(repo, "Cargo.toml"),
                            "-p", crate, "--lib", "--", "-Zunpretty=mir", "-C", "debug-assertions=off", "-C", "overflow-checks=on"],
                           capture_output=True, text=True, env=env)
    finally:
        os.utime(lib, (st.st_atime, st.st_mtime))
    if p.returncode != 0 or "fn " not in p.stdout:
        raise RuntimeError("MIR dump failed for %s:\n%s" % (crate, p.stderr[-2000:]))
    open(out, "w").write(p.stdout)
    return p.stdout


def mir_function(mir, name):
    """-> (params [(local, ty)], ret_ty, {bb: [lines]}) of `fn <name>(`"""
    pat = name[3:] if name.startswith("re:") else re.escape(name)
    m = re.search(r"^fn %s\((.*?)\) -> ([^{]+) \{\n(.*?)^\}\n" % pat, mir, re.S | re.M)
    if not m:
        raise Unsupported("function %s not found in MIR" % name)
    params = []
    for p in m.group(1).split(", "):
        if p.strip():
            l, t = p.split(": ", 1)
            params.append((l.strip(), t.strip()))
    body = m.group(3)
    blocks = {}
    for bm in re.finditer(r"^    (bb\d+)(?: \(cleanup\))?: \{\n(.*?)^    \}\n", body, re.S | re.M):
        blocks[bm.group(1)] = [l.strip() for l in bm.group(2).splitlines() if l.strip()]
    decls = dict(re.findall(r"let (?:mut )?(_\d+): ([^;]+);", body))
    return params, m.group(2).strip(), blocks, decls


# ---------------------------------------------------------------------------------------------
# symbolic values: python int (constant) or SMT term string; tuples as python tuples


def is_const(v):
    return isinstance(v, int) and not isinstance(v, bool)


def t(v):
    if isinstance(v, bool):
        return "true" if v else "false"
    if is_const(v):
        return str(v) if v >= 0 else "(- %d)" % -v
    return v


def wrap(v, w):
    if is_const(v):
        return v % (1 << w)
    return "(mod %s %d)" % (v, 1 << w)


class Exec:
    def __init__(self, ctx, tag):
        self.ctx = ctx  # shared: fresh var decls, side lemmas
        self.tag = tag
        self.env = {}
        self.obligations = []  # (guard terms so far, cond term, message)
        self.assumed = []  # conditions established by earlier asserts (panics abort)

    def fresh(self, base):
        self.ctx["n"] += 1
        name = "%s_%s_%d" % (base, self.tag, self.ctx["n"])
        self.ctx["decls"].append("(declare-const %s Int)" % name)
        return name

    def name(self, v):
        """give every non-trivial intermediate its own constant (shared, smaller terms)"""
        if isinstance(v, tuple):
            return tuple(self.name(x) for x in v)
        if isinstance(v, (bool, int)) or re.match(r"^[\w.]+$", v):
            return v
        self.ctx["n"] += 1
        is_bool = v.startswith(("(not", "(=", "(<", "(>", "(and", "(or", "(=>"))
        nm = "%s_%s_%d" % ("b" if is_bool else "v", self.tag, self.ctx["n"])
        self.ctx["decls"].append("(declare-const %s %s)" % (nm, "Bool" if is_bool else "Int"))
        self.ctx["lemmas"].append("(= %s %s)" % (nm, v))
        return nm

    def operand(self, s):
        s = s.strip()
        m = re.match(r"^(copy|move) (.+)$", s)
        if m:
            return self.place(m.group(2))
        m = re.match(r"^const (-?\d+)_([iu]\d+|usize|isize)$", s)
        if m:
            return int(m.group(1))
        m = re.match(r"^const (u8|u16|u32|u64|usize)::MAX$", s)
        if m:
            return (1 << WIDTH[m.group(1)]) - 1
        if s in ("const true", "const false"):
            return s == "const true"
        raise Unsupported("operand: " + s)

    def place(self, s):
        s = s.strip()
        m = re.match(r"^\((_\d+)\.(\d+): [^)]+\)$", s)
        if m:
            v = self.env[m.group(1)]
            return v[int(m.group(2))]
        if re.match(r"^_\d+$", s):
            if s not in self.env:
                raise Unsupported("read of unset local " + s)
            return self.env[s]
        raise Unsupported("place: " + s)

    def width_of(self, local_or_ty):
        ty = self.types.get(local_or_ty, local_or_ty)
        if ty not in WIDTH or ty.startswith("i") and ty != "i32":
            if ty in WIDTH:
                return WIDTH[ty]
            raise Unsupported("type " + ty)
        return WIDTH[ty]

    def divrem(self, a, b):
        key = (t(a), t(b))
        if key in self.ctx["divs"]:
            return self.ctx["divs"][key]
        if is_const(a) and is_const(b):
            r = (a // b, a % b)
        elif is_const(b):
            r = ("(div %s %d)" % (t(a), b), "(mod %s %d)" % (t(a), b))
        else:
            q, rr = self.fresh("q"), self.fresh("r")
            # division lemma (valid whenever b > 0, which the preceding MIR assert guarantees)
            self.ctx["lemmas"].append("(=> (> %s 0) (and (= %s (+ (* %s %s) %s)) (>= %s 0) (< %s %s) (>= %s 0)))" %
                                      (t(b), t(a), q, t(b), rr, rr, rr, t(b), q))
            r = (q, rr)
        self.ctx["divs"][key] = r
        return r

    def binop(self, op, a, b, w):
        A, B = t(a), t(b)
        cc = is_const(a) and is_const(b)
        if op in ("Add", "AddWithOverflow", "AddUnchecked"):
            raw = a + b if cc else "(+ %s %s)" % (A, B)
            ov = (raw >= (1 << w)) if cc else "(>= %s %d)" % (raw, 1 << w)
        elif op in ("Sub", "SubWithOverflow", "SubUnchecked"):
            raw = a - b if cc else "(- %s %s)" % (A, B)
            ov = (raw < 0) if cc else "(< %s 0)" % raw
        elif op in ("Mul", "MulWithOverflow"):
            raw = a * b if cc else "(* %s %s)" % (A, B)
            ov = (raw >= (1 << w)) if cc else "(>= %s %d)" % (raw, 1 << w)
        elif op == "Div":
            return self.divrem(a, b)[0]
        elif op == "Rem":
            return self.divrem(a, b)[1]
        elif op in ("Shl", "ShlUnchecked"):
            if not is_const(b):
                raise Unsupported("symbolic shift amount")
            return wrap(a << b if is_const(a) else "(* %s %d)" % (A, 1 << b), w)
        elif op in ("Shr", "ShrUnchecked"):
            if not is_const(b):
                raise Unsupported("symbolic shift amount")
            return a >> b if is_const(a) else "(div %s %d)" % (A, 1 << b)
        elif op == "BitAnd":
            for x, y in ((a, b), (b, a)):
                if is_const(y) and (y + 1) & y == 0:  # mask 2^k - 1
                    return x % (y + 1) if is_const(x) else "(mod %s %d)" % (t(x), y + 1)
            raise Unsupported("BitAnd with a non-mask operand")
        elif op in ("Eq", "Ne", "Lt", "Le", "Gt", "Ge"):
            if cc:
                return {"Eq": a == b, "Ne": a != b, "Lt": a < b, "Le": a <= b, "Gt": a > b, "Ge": a >= b}[op]
            sym = {"Eq": "=", "Lt": "<", "Le": "<=", "Gt": ">", "Ge": ">="}
            return "(not (= %s %s))" % (A, B) if op == "Ne" else "(%s %s %s)" % (sym[op], A, B)
        else:
            raise Unsupported("binop " + op)
        if op.endswith("WithOverflow"):
            return (wrap(raw, w), ov)
        return wrap(raw, w)

    def rvalue(self, dst, rhs):
        w = self.width_of(dst) if self.types.get(dst) in WIDTH else None
        m = re.match(r"^(\w+)\((.+), (.+)\)$", rhs)
        if m and m.group(1)[0].isupper():
            a, b = self.operand(m.group(2)), self.operand(m.group(3))
            op = m.group(1)
            if op.endswith("WithOverflow"):
                ty = re.match(r"^\((\w+), bool\)$", self.types[dst]).group(1)
                return self.binop(op, a, b, WIDTH[ty])
            if op in ("Eq", "Ne", "Lt", "Le", "Gt", "Ge"):
                return self.binop(op, a, b, None)
            return self.binop(op, a, b, w)
        m = re.match(r"^(.+) as (\w+) \(IntToInt\)$", rhs)
        if m:
            v = self.operand(m.group(1))
            return wrap(v, WIDTH[m.group(2)])
        m = re.match(r"^Not\((.+)\)$", rhs)
        if m:
            v = self.operand(m.group(1))
            if isinstance(v, bool):
                return not v
            return "(not %s)" % v
        m = re.match(r"^\((.+)\)$", rhs)
        if m and self.types.get(dst, "").startswith("("):
            return tuple(self.operand(x) for x in m.group(1).split(", "))
        return self.operand(rhs)

    def run(self, mir, name, args, entry=None, bind=None, result=None):
        """entry/bind/result: execute only the straight-line arithmetic kernel of a larger function:
        start at block `entry` with the locals in `bind` pre-set, stop as soon as `result` is assigned
        and the enclosing block ends (the surrounding control flow is outside this engine)."""
        params, ret, blocks, decls = mir_function(mir, name)
        self.types = dict(decls)
        for (l, ty), a in zip(params, args):
            self.types[l] = ty
            self.env[l] = a
        for l, a in (bind or {}).items():
            self.env[l] = a
        self.types["_0"] = ret
        bb = entry or "bb0"
        seen = set()
        while True:
            if result is not None and result in self.env:
                return self.env[result]
            if bb in seen:
                raise Unsupported("loop in %s (%s revisited)" % (name, bb))
            seen.add(bb)
            for line in blocks[bb]:
                line = line.rstrip(";")
                if line.startswith(("StorageLive", "StorageDead", "nop", "FakeRead", "PlaceMention", "Retag")):
                    continue
                if result is not None and result in self.env:
                    return self.env[result]  # kernel finished; what follows wraps/converts the value
                if line == "return":
                    return self.env["_0"]
                m = re.match(r"^goto -> (bb\d+)$", line)
                if m:
                    bb = m.group(1)
                    break
                m = re.match(r'^assert\((!?)(.+?), "(.*?)"(?:, .*)?\) -> \[success: (bb\d+), unwind [^\]]+\]$', line)
                if m:
                    c = self.operand(m.group(2))
                    if m.group(1):
                        c = (not c) if isinstance(c, bool) else "(not %s)" % c
                    self.obligations.append((list(self.assumed), t(c), "%s: %s" % (name, m.group(3))))
                    self.assumed.append(t(c))
                    bb = m.group(4)
                    break
                m = re.match(r"^(_\d+) = <(\w+) as From<(\w+)>>::from\((.+)\) -> \[return: (bb\d+), unwind [^\]]+\]$", line)
                if m:
                    if WIDTH[m.group(2)] < WIDTH[m.group(3)] or m.group(2)[0] != "u" or m.group(3)[0] != "u":
                        raise Unsupported("From conversion " + line)
                    self.env[m.group(1)] = self.operand(m.group(4))
                    bb = m.group(5)
                    break
                m = re.match(r"^(_\d+) = (.+)$", line)
                if m and "->" not in line:
                    if result is not None and result in self.env:
                        return self.env[result]  # kernel finished; what follows wraps the value
                    self.env[m.group(1)] = self.name(self.rvalue(m.group(1), m.group(2)))
                    continue
                raise Unsupported("statement in %s: %s" % (name, line))
            else:
                raise Unsupported("block %s of %s has no terminator" % (bb, name))


# ---------------------------------------------------------------------------------------------
# solver plumbing


def solve(script, solver, timeout):
    cmd = {"cvc5": ["cvc5", "--lang", "smt2", "--tlimit", str(timeout * 1000)],
           "z3": ["z3", "-in", "-T:%d" % timeout], "z3-new": ["z3-new", "-in", "-T:%d" % timeout]}[solver]
    t0 = time.time()
    p = subprocess.run(cmd, input=script, capture_output=True, text=True)
    return p.stdout, time.time() - t0


def parse_answers(out):
    """-> list of (status, model-dict) per (check-sat)"""
    res = []
    toks = re.split(r"^(sat|unsat|unknown|timeout)$", out, flags=re.M)
    # toks: [pre, status, after, status, after...]
    i = 1
    while i < len(toks):
        st = toks[i]
        after = toks[i + 1] if i + 1 < len(toks) else ""
        model = {}
        for m in re.finditer(r"\((\w+) (\(- \d+\)|-?\d+)\)", after):
            v = m.group(2)
            model[m.group(1)] = -int(v[3:-1]) if v.startswith("(-") else int(v)
        res.append(("unknown" if st == "timeout" else st, model))
        i += 2
    return res


# ---------------------------------------------------------------------------------------------
# native twin: the functions' source text, extracted verbatim from /repo, compiled with rustc


def extract_fn_source(path, fn_name):
    src = open(path).read()
    m = re.search(r"^(?:pub(?:\([^)]*\))? )?fn %s\b" % re.escape(fn_name), src, re.M)
    if not m:
        raise RuntimeError("fn %s not found in %s" % (fn_name, path))
    i = src.index("{", m.start())
    depth, j = 0, i
    while True:
        if src[j] == "{":
            depth += 1
        elif src[j] == "}":
            depth -= 1
            if depth == 0:
                break
        j += 1
    return src[m.start():j + 1]


def native_program(repo, q, body):
    """rust source: the real functions (renamed by module) + a main"""
    parts = ["#![allow(dead_code, unused)]"]
    for alias, (crate_rel, fn_name) in q["sources"].items():
        text = extract_fn_source(os.path.join(repo, crate_rel), fn_name)
        text = re.sub(r"^(pub(\([^)]*\))? )?fn %s\b" % re.escape(fn_name), "fn %s" % alias, text)
        parts.append("// from %s\n%s" % (crate_rel, text))
    prelude = q.get("native_prelude", "")
    if "native_expr" in q:
        rel, pat = q["native_expr"]
        m = re.search(pat, open(os.path.join(repo, rel)).read())
        if not m:
            raise RuntimeError("expression pattern not found in %s (source changed shape)" % rel)
        expr = m.group(1).replace("self.position()", "position")
        prelude = prelude.replace("/*EXTRACT*/", expr)
    parts.append(prelude)
    parts.append("fn main() {\n%s\n}" % body)
    return "\n\n".join(parts)


def run_native(src, work, name, overflow_checks=True):
    d = os.path.join(work, "e2-native")
    os.makedirs(d, exist_ok=True)
    rs = os.path.join(d, name + ".rs")
    exe = os.path.join(d, name)
    open(rs, "w").write(src)
    c = subprocess.run(["rustc", "--edition", "2021", "-C", "overflow-checks=%s" % ("on" if overflow_checks else "off"),
                        "-C", "opt-level=%d" % (0 if overflow_checks else 3), "-o", exe, rs], capture_output=True, text=True)
    if c.returncode != 0:
        return None, "rustc failed: " + c.stderr[-1500:]
    r = subprocess.run([exe], capture_output=True, text=True)
    return r, ""


# ---------------------------------------------------------------------------------------------


def run(obligations, repo, work, logf, log):
    """-> list of (obligation, verdict, note, extra)"""
    from concurrent.futures import ThreadPoolExecutor
    mir_cache = {}
    errs = {}
    for c in sorted({q["crate"] for q in obligations}):
        try:
            mir_cache[c] = dump_mir(repo, c, work)
        except Exception as e:
            errs[c] = "MIR dump failed: %r" % e

    def one(q):
        t0 = time.time()
        extra = {"queries": 0, "time_s": 0.0, "mir_functions": [], "vectors": 0}
        try:
            if q["crate"] in errs:
                raise RuntimeError(errs[q["crate"]])
            verdict, note = decide(q, mir_cache[q["crate"]], repo, work, logf, log, extra)
        except Unsupported as e:
            verdict, note = "inconclusive", "MIR outside the supported fragment: %s" % e
        except Exception as e:  # engine error: fail closed
            verdict, note = "inconclusive", "engine error: %r" % e
        extra["time_s"] = round(extra["time_s"], 3)
        log("  %-55s %-12s %6.1fs  %s" % ("[smt] " + q["id"], verdict.upper() if verdict != "ok" else "ok", time.time() - t0, note))
        return (q, verdict, note, extra)

    with ThreadPoolExecutor(max_workers=3) as ex:
        return list(ex.map(one, obligations))


def build_script(q, mir, fixed=None):
    """-> (script prefix, goals [(name, term)], outputs {name: term}, ctx)"""
    ctx = {"n": 0, "decls": [], "lemmas": [], "divs": {}}
    vals = {}
    pre = ["(set-logic ALL)", "(set-option :produce-models true)"]
    for v, (lo, hi) in q["vars"].items():
        pre.append("(declare-const %s Int)" % v)
        pre.append("(assert (and (>= %s %d) (<= %s %d)))" % (v, lo, v, hi))
        vals[v] = v
    if fixed:
        for v, c in fixed.items():
            pre.append("(assert (= %s %d))" % (v, c))
    goals = []
    ex_all = []
    for step in q["steps"]:
        # step: (result name, MIR fn, [arg names or ints])
        res, fn, args = step[:3]
        opts = step[3] if len(step) > 3 else {}
        ex = Exec(ctx, res)
        a = [vals[x] if isinstance(x, str) else x for x in args]
        bind = {l: (vals[x] if isinstance(x, str) else x) for l, x in opts.get("bind", {}).items()}
        vals[res] = ex.run(mir, fn, a, entry=opts.get("entry"), bind=bind, result=opts.get("result"))
        ex_all.append(ex)
        for assumed, cond, msg in ex.obligations:
            goals.append(("no-panic " + msg, cond, [a for a in assumed if a != "true"]))
    body = pre + ctx["decls"] + ["(assert %s)" % l for l in ctx["lemmas"]]
    # the later steps' panics are only reachable if earlier asserts passed; all asserts of all steps are
    # proven separately, so assuming them for the functional goals is sound
    def subst(term):
        out = term
        for k in sorted(vals, key=len, reverse=True):
            out = re.sub(r"\$%s\b" % re.escape(k), t(vals[k]), out)
        return out
    for a in q.get("assume", []):
        body.append("(assert %s)" % subst(a))
    for name, term in q["goals"]:
        goals.append((name, subst(term), []))
    return "\n".join(body) + "\n", goals, vals, ex_all


def decide(q, mir, repo, work, logf, log, extra):
    from concurrent.futures import ThreadPoolExecutor
    extra["mir_functions"] = sorted({s[1] for s in q["steps"]})
    script, goals, vals, ex_all = build_script(q, mir)
    no_panic = [term for name, term, hyps in goals if name.startswith("no-panic")]
    scripts = []
    for name, term, hyps in goals:
        # a panic obligation assumes the asserts that precede it on the path; a functional goal assumes
        # that no MIR assert fired at all (each of those is its own query)
        hyp = "".join("(assert %s)\n" % h for h in (hyps if name.startswith("no-panic") else no_panic))
        scripts.append(script + hyp + "(assert (not %s))\n(check-sat)\n" % term)
    with open(os.path.join(work, "e2-%s.smt2" % re.sub(r"\W", "_", q["id"])), "w") as f:
        f.write("\n; ---- next query ----\n".join(scripts))
    tmo = q.get("timeout", 60)
    # portfolio: every query goes to cvc5, z3 4.8 and z3 5.1; a definite answer (sat/unsat) from any
    # solver decides it, two different definite answers are an engine error (fail closed)
    solvers = ["cvc5", "z3", "z3-new"]
    with ThreadPoolExecutor(max_workers=14) as ex:
        outs = {sv: list(ex.map(lambda sc, sv=sv: solve(sc, sv, tmo), scripts)) for sv in solvers}
    ans = []
    agree = {sv: 0 for sv in solvers}
    for i, (name, _, _) in enumerate(goals):
        verdicts = {}
        for sv in solvers:
            out, dt = outs[sv][i]
            extra["time_s"] += dt
            a = parse_answers(out)
            st = a[0][0] if a and "(error" not in out else "unknown"
            verdicts[sv] = st
            with open(logf, "a") as f:
                f.write("[e2 %s] %s: %s %.2fs %s\n" % (q["id"], name, sv, dt, out.strip()[:120].replace("\n", " ")))
        definite = {v for v in verdicts.values() if v in ("sat", "unsat")}
        if len(definite) > 1:
            return "inconclusive", "solvers disagree on `%s`: %s" % (name, verdicts)
        for sv in solvers:
            if verdicts[sv] in definite:
                agree[sv] += 1
        ans.append((definite.pop() if definite else "unknown", {}))
    extra["queries"] = len(goals)
    extra["definite_by_solver"] = agree
    zdef = agree["z3"]

    # translator validation against native execution of the same source text
    ok, note = validate(q, mir, repo, work, extra)
    if not ok:
        return "inconclusive", "translator validation failed: " + note

    bad = [(g, a) for g, a in zip(goals, ans) if a[0] != "unsat"]
    if not bad:
        return "ok", "%d queries unsat (definite answers: %s)" % (len(goals), agree)
    sat = [b for b in bad if b[1][0] == "sat"]
    if not sat:
        return "inconclusive", "solver returned unknown for: " + "; ".join(g[0] for g, a in bad[:3])
    extra["sat_goals"] = [g[0] for g, a in sat]
    # a counterexample: fetch the model, replay natively
    (gname, gterm, ghyps), _ = sat[0]
    hyp = "".join("(assert %s)\n" % h for h in (ghyps if gname.startswith("no-panic") else no_panic))
    mout, mdt = solve(script + "%s(assert (not %s))\n(check-sat)\n(get-value (%s))\n" % (hyp, gterm, " ".join(q["vars"].keys())), "cvc5", tmo)
    extra["time_s"] += mdt
    mans = parse_answers(mout)
    if not mans or mans[0][0] != "sat":
        return "inconclusive", "could not re-obtain the model for `%s`" % gname
    model = mans[0][1]
    rep, rpath = replay(q, repo, work, gname, model)
    extra["replay"] = rpath
    if rep:
        return "violation", "goal `%s` fails for %s (reproduced natively)" % (gname, model)
    return "inconclusive", "solver counterexample for `%s` %s did not reproduce natively" % (gname, model)


def validate(q, mir, repo, work, extra):
    vecs = q.get("vectors", [])
    if not vecs:
        return False, "no validation vectors declared"
    # native outputs
    lines = []
    for v in vecs:
        lines.append("    {\n" + "\n".join("        let %s: %s = %d;" % (k, q["native_types"][k], v[k]) for k in q["vars"]) +
                     "\n        " + q["native_eval"] + "\n    }")
    prog = native_program(repo, q, "\n".join(lines))
    r, err = run_native(prog, work, "val_" + re.sub(r"\W", "_", q["id"]))
    if r is None:
        return False, err
    if r.returncode != 0:
        return False, "native vector run failed: " + r.stderr[-300:]
    native = [[int(x) for x in l.split()] for l in r.stdout.strip().splitlines()]
    # SMT outputs with inputs fixed
    for v, nat in zip(vecs, native):
        script, goals, vals, _ = build_script(q, mir, fixed=v)
        for o in q["outputs"]:
            script += "(declare-const out_%s Int)\n(assert (= out_%s %s))\n" % (o, o, t(vals[o]))
        script += "(check-sat)\n(get-value (%s))\n" % " ".join("out_" + o for o in q["outputs"])
        out, dt = solve(script, "cvc5", 20)
        extra["time_s"] += dt
        if not out.startswith("sat"):
            return False, "vector %s not satisfiable in the encoding: %s" % (v, out[:80])
        model = parse_answers(out)[0][1]
        got = [model.get("out_" + o) for o in q["outputs"]]
        if got != nat:
            return False, "vector %s: native %s vs encoding %s" % (v, nat, got)
        extra["vectors"] += 1
    return True, ""


def replay(q, repo, work, gname, model):
    verif = os.path.dirname(os.path.dirname(os.path.abspath(__file__)))
    rdir = os.path.join(verif, "replays", q["props"][0])
    os.makedirs(rdir, exist_ok=True)
    rpath = os.path.join(rdir, re.sub(r"\W", "_", q["id"]) + ".rs")
    body = "\n".join("    let %s: %s = %d;" % (k, q["native_types"][k], model.get(k, 0)) for k in q["vars"]) + "\n    " + q["native_check"]
    prog = native_program(repo, q, body)
    open(rpath, "w").write("// E2 counterexample for goal `%s` of %s: %s\n// standalone: rustc -C overflow-checks=on <this file> && ./<exe>\n%s\n" % (gname, q["id"], model, prog))
    r, err = run_native(prog, work, "replay_" + re.sub(r"\W", "_", q["id"]))
    if r is None:
        return False, rpath
    return r.returncode != 0, rpath
