#!/bin/bash
# verify_seed.sh <worktree> <patch.diff> <demo.rs> <crate> -> confirms: patch applies, existing suite passes with it,
# demo fails with it and passes without it.  Prints a summary line; leaves the worktree clean.
set -u
WT=$1; PATCH=$2; DEMO=$3; CRATE=$4
cd "$WT" || exit 2
git checkout -q -- . && git clean -qfd -e target
name=demo_seed_$$
res() { echo "SEED-VERIFY $(basename $(dirname $PATCH))/$(basename $PATCH): $*"; }
git apply --check "$PATCH" || { res "patch does not apply"; exit 1; }
mkdir -p $CRATE/tests && cp "$DEMO" $CRATE/tests/$name.rs
# without the change
cargo test -p $CRATE --offline --test $name > /tmp/seed_$$_clean.log 2>&1; clean_rc=$?
git apply "$PATCH"
cargo test -p $CRATE --offline --test $name > /tmp/seed_$$_mut.log 2>&1; mut_rc=$?
rm -f $CRATE/tests/$name.rs; rmdir $CRATE/tests 2>/dev/null
cargo nextest run --workspace --no-fail-fast --offline > /tmp/seed_$$_suite.log 2>&1; suite_rc=$?
summary=$(grep -E "Summary|tests run" /tmp/seed_$$_suite.log | tail -1)
git checkout -q -- . && git clean -qfd -e target
res "demo_without_change_rc=$clean_rc demo_with_change_rc=$mut_rc suite_rc=$suite_rc [$summary]"
rm -f /tmp/seed_$$_*.log
