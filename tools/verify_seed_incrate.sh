#!/bin/bash
# verify_seed_incrate.sh <worktree> <patch.diff> <demo.rs> <crate> <file-to-append-to> <test filter>
set -u
WT=$1; PATCH=$2; DEMO=$3; CRATE=$4; FILE=$5; FILTER=$6
cd "$WT" || exit 2
git checkout -q -- . && git clean -qfd -e target
res() { echo "SEED-VERIFY $(basename $(dirname $PATCH))/$(basename $PATCH): $*"; }
git apply --check "$PATCH" || { res "patch does not apply"; exit 1; }
cat "$DEMO" >> $FILE
cargo test -p $CRATE --offline --lib $FILTER > /tmp/seedi_$$_clean.log 2>&1; clean_rc=$?
nclean=$(grep -c "^test .* ok$" /tmp/seedi_$$_clean.log)
git checkout -q -- $FILE
git apply "$PATCH"
cat "$DEMO" >> $FILE
cargo test -p $CRATE --offline --lib $FILTER > /tmp/seedi_$$_mut.log 2>&1; mut_rc=$?
git checkout -q -- . ; git apply "$PATCH"
cargo nextest run --workspace --no-fail-fast --offline > /tmp/seedi_$$_suite.log 2>&1; suite_rc=$?
summary=$(grep -E "Summary|tests run" /tmp/seedi_$$_suite.log | tail -1)
git checkout -q -- . && git clean -qfd -e target
res "demo_without_change_rc=$clean_rc (ok tests: $nclean) demo_with_change_rc=$mut_rc suite_rc=$suite_rc [$summary]"
rm -f /tmp/seedi_$$_*.log
