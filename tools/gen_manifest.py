#!/usr/bin/env python3
"""Regenerates /verif/MANIFEST.json from the table below + the obligations found in harness/.
A property is listed under `checks` only if it has at least one quick obligation."""
import json, os, subprocess, sys

VERIF = os.path.dirname(os.path.dirname(os.path.abspath(__file__)))
sys.path.insert(0, VERIF)
sys.path.insert(0, os.path.join(VERIF, "engine"))

import importlib.machinery, importlib.util
loader = importlib.machinery.SourceFileLoader("check_mod", os.path.join(VERIF, "check"))
spec = importlib.util.spec_from_loader("check_mod", loader)
check_mod = importlib.util.module_from_spec(spec)
loader.exec_module(check_mod)

TECH_KANI = "bounded model checking of the real crate code: Kani 0.68 harnesses (kani::any inputs, unwinding assertions on) decided by CBMC 6.11 + CaDiCaL; counterexamples replayed natively via concrete playback"
TECH_BOTH = TECH_KANI + "; plus nightly-MIR -> SMT-LIB translation of loop-free integer kernels decided by cvc5 (z3 cross-check)"

# property -> (design section, what the check decides, trusted/assumed, technique)
TEXT = {
    "C01": ("§5 C01", "Solver-decided, bounded: BGZF frame writer vs an independent in-harness BGZF parser (byte-exact), writer/reader frame inverse, budget arithmetic on the real constants, real Writer/Reader staging and round trip on small concrete payload sizes with symbolic contents. DEFLATE/CRC themselves are replaced by a native-faithful stored-block model (contract).",
            "zlib-rs DEFLATE/CRC32 correctness is assumed (stub: stored-block deflate, bitwise CRC-32); payload sizes limited to those listed per obligation; libdeflate feature not covered.", TECH_KANI),
    "C02": ("§5 C02", "Solver-decided: virtual-position pack/unpack bijection and lexicographic order for ALL values; gzi query == linear-scan oracle for every strictly increasing index of <=3 entries and every offset; one inductive step of the block cursor (consume / virtual_position / as_ref) from an arbitrary valid block state; reader seek/read on small concrete-size files.",
            "Long operation histories are covered by the one-step induction from an arbitrary valid state, not by bounded history exploration; DEFLATE stubbed as in C01.", TECH_KANI),
    "C04": ("§5 C04", "Solver-decided kernels behind indexed queries: Bin::add_chunk coverage, optimize_chunks coverage/pruning for small chunk counts, linear-index update/min_offset inductive step, binned-index parent chain, csi Query chunk state machine against a harness reader, per-format intersects() filters and CIGAR reference span. The composition into whole-file query==scan is an argument (DESIGN §5 C04), not executed.",
            "Whole files, BGZF layer, text parsing and IndexMap-heavy paths are outside the bound; sizes per obligation.", TECH_KANI),
    "C05": ("§5 C05", "Solver-decided per-field encoder/decoder inverses of the BAM record codec over all values of each field (positions, flags, MAPQ, TLEN, CIGAR ops, bases, qualities, aux scalars), CIGAR-overflow rule, region_to_bin == SAM-spec reg2bin for all 1<=s<=e<=2^29, validate()=>lazy accessors in range on small symbolic records.",
            "Whole-record composition only for small concrete layouts; records larger than the stated sizes and header dictionary lookups outside the bound.", TECH_KANI),
    "C06": ("§9 C06", "Narrow, solver-decided SAM text kernels: the quality-score text codec (writer accepts exactly scores <=93 and emits score+33; reader accepts exactly the printable range and returns byte-33 => inverse on everything writable, for all byte values), CIGAR op kind tables reader<->writer, decimal text of all u8/u16 values, and the aux integer domain (Value::try_from(i64) accepts exactly [i32::MIN, u32::MAX], reads back equal, smallest type).",
            "Headers, floats, whole-line tokenisation and SAM<->BAM record-set equivalence are outside (lexical-core / String / IndexMap paths not encodable within reach).", TECH_KANI),
    "C07": ("§9 C07", "Narrow, solver-decided CRAM kernels: block framing write->read inverse with an exact CRC-32 model (layout, declared sizes, corruption detected) and ITF8 size accounting == bytes written for all i32.",
            "Whole containers/slices, data-series interleaving, external codecs in situ are outside the bound.", TECH_KANI),
    "C08": ("§5 C08", "Solver-decided: ITF8 all i32, LTF8 all i64, uint7 all u32 round trips with exact encoded length and spec byte layout; rANS 4x8 and Nx16 symbol-step inverse for all states/frequencies (MIR->SMT, cvc5) and renormalisation inverse (Kani); frequency normalisation/serialisation on small tables.",
            "Whole-stream adaptive codecs (AAC, fqzcomp, name tokenizer) and FFI codecs are outside; the rANS interleave/induction over the stream is an argument.", TECH_BOTH),
    "C09": ("§5 C09", "Narrow, solver-decided VCF kernels: percent-encode/decode inverse and reserved-character freedom on all short strings, genotype kernel and span arithmetic where they fit.",
            "Headers, typed INFO/FORMAT parsing, floats and whole records are outside.", TECH_KANI),
    "C10": ("§5 C10", "Solver-decided BCF typed-value kernels: Int8/16/32 sentinel classification for every raw value, integer width selection never collides with reserved codes for all i32, type descriptor inverse incl. overflow length form, float bit patterns, genotype allele code inverse.",
            "String-map resolution, whole records and VCF text equivalence outside.", TECH_KANI),
    "C11": ("§5 C11", "Solver-decided: fai::Record::query offset arithmetic by induction over base index for ALL u64 geometries (MIR->SMT, cvc5) ; the indexer's line scanner (consume_sequence_line: line width / base count with CR LF and LF endings, unterminated last line) and the sequence Reader (terminator stripping, stop at '>') on small symbolic lines under every split into two fill_buf windows.",
            "bgzipped FASTA (deflate), whole-file indexer (String/Vec records) and FASTQ round trip outside.", TECH_BOTH),
    "C12": ("§5 C12", "Solver-decided over read schedules: the leaf read loops (default_read_exact, BAM read_exact_or_eof/read_block_size/read_record, BCF size reader, BGZF read_frame_into) and the hand-written fill_buf/consume line scanners (FASTA sequence reader and indexer, FASTQ definition/plus line, SAM/BED/VCF read_field, VCF header adaptor) return the same result for EVERY partition of a small stream into short reads / fill_buf windows (solver-placed splits, or one instance per concrete split where symbolic splits do not fit) and every placement of <=2 Interrupted errors. memchr is replaced by a first-occurrence loop under cfg(kani) (documented contract). One known finding (F24, VCF per-window UTF-8 validation) and one shared with C20 (F10).",
            "std read_until-based readers and whole files outside; stream sizes per obligation (lines of 3..8 bytes).", TECH_KANI),
    "C13": ("§5 C13", "Solver-decided over the cut point: the BAM record reader, the BCF record-size reader and the BGZF frame reader over stream[..c] for a symbolic c yield a prefix then Ok(EOF) only at a boundary and an error otherwise; the BGZF Reader at end of input reports EOF (F8 fixed); text scanners (FASTA sequence, FASTQ plus line, VCF header adaptor) on a last line without terminator.",
            "CRAM container-header reader (harness exists, does not fit: off), whole files through inflate and index files outside; streams are two minimal records/frames.", TECH_KANI),
    "C14": ("§5 C14", "Solver-decided over fault schedules: write_frame and the BGZF Writer (write/flush/try_finish/drop) against a nondeterministic sink (failure at a symbolic call index, symbolic short writes, Interrupted) - a failure is surfaced, Ok implies complete byte-identical output.",
            "Multithreaded writer and high-level format writers outside; fault dimensions are explored in separate harnesses.", TECH_KANI),
    "C15": ("§5 C15", "Solver-decided absence of panics/overflow/out-of-bounds for ARBITRARY bytes up to the stated size fed to the listed decoders (integer codings, BGZF frame parser, BCF typed values, BAM validate=>accessors, CRAM block/rANS headers, gzi/fai queries, corrupt seek offsets, CSI geometry), and the inductive step 'field bounds stay inside the line buffer' of the lazy SAM/VCF/BED line readers (read_field from an arbitrary pre-state over arbitrary bytes; found and fixed F20/F22/F23).",
            "Only inputs up to the per-obligation size; allocation size, stack depth and wall-clock are not modelled.", TECH_KANI),
    "C17": ("§5 C17", "Solver-decided: reg2bin(feature) is in the closed-form bin set of every intersecting region for ALL interval pairs at (14,5) and other geometries; the real reg2bins equals the closed form at small concrete geometries; parent chain; chunk-list soundness (shared with C04); index leaf writer->reader inverses.",
            "Depth-5 reg2bins is tied to the closed form only at small depth (loop body independent of depth: argument); multi-bin index files end-to-end outside.", TECH_KANI),
    "C18": ("§9 C18", "Narrow, solver-decided: the GTF attribute-value quote/backslash escaping layer (writer output == spec form for every 2-byte value; reader parse_field + escape_decode invert it for every 2-byte value) and the BED record reader's bounds bookkeeping (read_field inductive step from an arbitrary line-buffer state; a reused Record<3> with ARBITRARY previous content keeps nothing of the previous line) and the GFF3 attribute-value percent layer for EVERY single byte (writer output reserved-free, reader parse_value returns the same string, never an array).",
            "GFF3 values of 2+ bytes and other GFF3 columns, BED writer and numeric columns, record-level round trips, attribute ordering outside.", TECH_KANI),
    "C19": ("§9 C19", "Narrow, solver-decided CRAM query/index kernels: the real Query state machine yields a pending record iff it is on the queried reference and intersects (symbolic ids/positions), ReferenceSequenceContext::update one-step fold and raw-triple conversion.",
            "Container walking, slice decoding and CRAI text I/O outside.", TECH_KANI),
    "C20": ("§5 C20", "Narrow, solver-decided: magic-number kernels of format autodetection on a symbolic window, incl. no-confusion for SAM writer output; and the writer side of the pairing: the real generic alignment and variant writer builders run on a symbolic configuration (format x compression in {unset, explicitly none, BGZF}) build exactly the configured writer stack (found and fixed F27: BCF compression arms swapped).",
            "Compressed branch (flate2), the CRAM writer configuration, the bytes the stacks emit and record-preserving conversions outside.", TECH_KANI),
}

NA = {
    "C09": "Not applicable as built: the VCF escaping layer sits on the external percent_encoding crate and Cow<str>/String, typed INFO/FORMAT parsing on header IndexMaps; no solver obligation over the real code was brought under the time/memory budget (measured again at the end: the INFO string writer half fits in 1.7 s for every 1-character string, but the reader half -- percent_decode_str(..).decode_utf8(), i.e. Cow + String::from_utf8 of a heap Vec -- exhausts 14 GB for 3 concrete-length ASCII bytes, so the inverse law cannot be decided), and deciding the writer half or unrelated kernels alone would not speak to this round-trip property. The harnesses are kept, tier=off (harness/vcf/writer_info_string.rs). See DESIGN.md §8.3, §9.",

    "C03": "Quantifier is over thread schedules of rayon tasks/crossbeam channels; Kani/CBMC do not model threads or channels and no solver-based engine here executes the real multithreaded code (a hand-written Promela/TLA+ model would be a different technique). See DESIGN.md §5 C03.",
    "C16": "Async BGZF/format I/O needs a tokio runtime, spawn_blocking and futures combinators; Kani cannot execute them and the quantifier is over poll schedules. See DESIGN.md §5 C16.",
}


def main():
    obs = check_mod.parse_annotations()
    try:
        import smt_obligations
        sobs = smt_obligations.obligations()
    except ImportError:
        sobs = []
    have_quick = set()
    for o in obs:
        if o["tier"] == "quick" and o["expect"] == "pass":
            have_quick.update(o["props"])
    for q in sobs:
        if q["tier"] == "quick":
            have_quick.update(q["props"])
    props = [json.loads(l)["id"] for l in open(os.path.join(VERIF, "properties.jsonl"))]
    hooks_commits = subprocess.run(["git", "-C", "/repo", "log", "--format=%H %s"], capture_output=True, text=True).stdout.splitlines()
    hook_shas = [l.split()[0] for l in hooks_commits if " verif hooks" in l or l.split(" ", 1)[1].startswith("verif hooks")]
    checks, na = [], []
    for p in props:
        if p in TEXT and p in have_quick:
            sec, text, note, tech = TEXT[p]
            checks.append({
                "property_id": p,
                "quick_cmd": "./check %s --tier quick" % p,
                "thorough_cmd": "./check %s --tier thorough" % p,
                "evidence_file": "/verif/evidence/%s.json" % p,
                "replay_cmd_template": "./check %s --replay {path}" % p,
                "engine": "kani+mir2smt" if tech is TECH_BOTH else "kani",
                "level_claimed": {"category": "proof", "text": "Bounded proof (not unbounded): " + text + " Every obligation states its bound; a timeout/unwinding failure is exit 2, never success.", "design_ref": "DESIGN.md " + sec},
                "level_note": note + " Trusted base: rustc/Kani codegen, CBMC+CaDiCaL, cvc5/z3, harness oracles and listed stubs.",
                "technique": tech,
            })
        else:
            reason = NA.get(p) or ("No solver obligation built yet for this property; see DESIGN.md " + TEXT.get(p, ("",))[0])
            na.append({"property_id": p, "reason": reason})
    man = {
        "version": 1,
        "setup_cmd": "./setup.sh",
        "hooks": {
            "guard": "cfg(kani)",
            "enable": "cargo kani sets --cfg kani; each hook is `#[cfg(kani)] #[path = \"/verif/harness/<crate>/<file>.rs\"] mod verif_kani;` appended to a module of /repo (add-only), plus `#[cfg(kani)] pub(crate) use ... as verif_kani_*` re-exports between sibling modules and, in the text line scanners (fasta, fastq, bed, sam, vcf), the memchr shim: the existing `use memchr::...;` line gets a `#[cfg(not(kani))]` attribute line in front of it and a `#[cfg(kani)] use ...verif_kani::memchr_model as memchr;` twin (lines added only; with the guard off the import is unchanged); checks run `cargo kani --manifest-path /repo/Cargo.toml -p <crate>`",
            "baseline_off_cmd": "cd /repo && cargo nextest run --workspace --no-fail-fast --tool-config-file pb:/w/lib/nextest.toml --profile pb --test-threads 8 --offline",
            "source_commits": hook_shas,
            "add_only": True,
        },
        "engines": [
            {"name": "kani", "path": "/verif/check + /verif/harness", "serves_properties": [c["property_id"] for c in checks],
             "kind_free_text": "Kani 0.68 / CBMC 6.11 bounded model checking of in-crate harnesses over the real code"},
            {"name": "mir2smt", "path": "/verif/engine/mir2smt.py", "serves_properties": sorted({p for q in sobs for p in q["props"]}),
             "kind_free_text": "nightly MIR dump -> SMT-LIB (Int with explicit wrap) decided by cvc5, z3 cross-check"},
        ],
        "checks": checks,
        "not_applicable": na,
        "notes": "All checks: exit 0 held / exit 1 VIOLATION (natively replayed) / exit 2 inconclusive. Evidence is rewritten on every run. known_findings.json lists genuine recorded defects.",
    }
    with open(os.path.join(VERIF, "MANIFEST.json"), "w") as f:
        json.dump(man, f, indent=1)
    print("claimed:", [c["property_id"] for c in checks])
    print("n/a:", [n["property_id"] for n in na])


if __name__ == "__main__":
    main()
