#!/usr/bin/env python3
"""store_seed.py <PROP> <A|B> <crate> "<needs>" : copies a verified seeded change from /tmp/mut/<PROP>-out into /verif/seeded/"""
import json, os, shutil, sys, re
prop, x, crate, needs = sys.argv[1:5]
src = "/tmp/mut/%s-out" % prop
dst = "/verif/seeded/%s-%s" % (prop, x)
os.makedirs(dst, exist_ok=True)
shutil.copy(os.path.join(src, x + ".patch.diff"), os.path.join(dst, "patch.diff"))
shutil.copy(os.path.join(src, x + ".demo.rs"), os.path.join(dst, "demo.rs"))
shutil.copy(os.path.join(src, x + ".meta.txt"), os.path.join(dst, "agent_meta.txt"))
line = ""
for f in os.listdir("/tmp"):
    if f.startswith("seed_verify") and f.endswith(".log"):
        for l in open(os.path.join("/tmp", f)):
            if "SEED-VERIFY %s-out/%s.patch.diff" % (prop, x) in l:
                line = l.strip()
files = sorted(set(re.findall(r"^\+\+\+ b/(\S+)", open(os.path.join(dst, "patch.diff")).read(), re.M)))
meta = {
    "property": prop, "id": "%s-%s" % (prop, x), "files_changed": files,
    "needs_to_manifest": needs,
    "demo": "demo.rs, placed as %s/tests/<name>.rs (public API only); fails with the change, passes without" % crate,
    "confirmed_by": "tools/verify_seed.sh in a scratch worktree of the pinned commit: " + line,
    "origin": "independent sub-agent given only the property text and a scratch worktree",
    "detected_by": None,
}
json.dump(meta, open(os.path.join(dst, "meta.json"), "w"), indent=1)
print("stored", dst)
