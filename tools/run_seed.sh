#!/bin/bash
# run_seed.sh <seed-id> <property> [--only filter]   : applies seeded/<id>/patch.diff to a scratch copy of /repo
# (never to /repo itself), runs ./check <property> --tier quick against it, prints the verdict line.
set -u
ID=$1; PROP=$2; shift 2
S=/tmp/seedrun/$ID
rm -rf $S; mkdir -p $S
rsync -a --exclude /target --exclude .git /repo/ $S/repo/
( cd $S/repo && git init -q . >/dev/null 2>&1; patch -p1 -s < /verif/seeded/$ID/patch.diff ) || { echo "SEED-RUN $ID: patch failed"; exit 1; }
cd /verif
VERIF_REPO=$S/repo VERIF_WORK=/tmp/seedrun/work ./check $PROP --tier quick --no-evidence "$@" > $S/check.log 2>&1
rc=$?
viol=$(grep -c "^VIOLATION" $S/check.log)
echo "SEED-RUN $ID: property=$PROP args=[$*] exit=$rc violations=$viol :: $(grep -E "VIOLATION|INCONCLUSIVE" $S/check.log | head -3 | cut -c1-160 | tr '\n' '|')"
cp $S/check.log /tmp/seedrun/$ID.check.log
rm -rf $S
