#!/bin/bash
# run_all.sh [quick|thorough] : runs every claimed check of MANIFEST.json sequentially, prints one line each
TIER=${1:-quick}
cd "$(dirname "$0")/.."
for P in $(python3 -c "import json; print(' '.join(c['property_id'] for c in json.load(open('MANIFEST.json'))['checks']))"); do
  t0=$(date +%s)
  ./check $P --tier $TIER > .work/runall-$P-$TIER.log 2>&1; rc=$?
  echo "RUNALL $P $TIER exit=$rc $(( $(date +%s) - t0 ))s :: $(tail -1 .work/runall-$P-$TIER.log | cut -c1-150)"
done
