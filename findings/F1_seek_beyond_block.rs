use std::io::{Cursor, Read, Write, BufRead};
use noodles_bgzf as bgzf;

fn file() -> Vec<u8> {
    let mut w = bgzf::io::Writer::new(Vec::new());
    w.write_all(b"noodles").unwrap();
    w.finish().unwrap()
}

#[test]
fn seek_to_in_block_offset_beyond_block_then_read_exact() {
    let data = file();
    let mut r = bgzf::io::Reader::new(Cursor::new(&data));
    // a virtual position as a corrupt BAI/CSI/tabix chunk could supply: block 0, offset 100 (> 7)
    let vp = bgzf::VirtualPosition::try_from((0, 100)).unwrap();
    let res = std::panic::catch_unwind(std::panic::AssertUnwindSafe(|| {
        let _ = r.seek(vp);
        let mut buf = [0u8; 2];
        let _ = r.read_exact(&mut buf);
    }));
    assert!(res.is_ok(), "panicked instead of returning an error");
}

#[test]
fn seek_to_in_block_offset_beyond_block_then_fill_buf() {
    let data = file();
    let mut r = bgzf::io::Reader::new(Cursor::new(&data));
    let vp = bgzf::VirtualPosition::try_from((0, 100)).unwrap();
    let res = std::panic::catch_unwind(std::panic::AssertUnwindSafe(|| {
        let _ = r.seek(vp);
        let _ = r.fill_buf().map(|b| b.len());
        let _ = r.virtual_position();
    }));
    assert!(res.is_ok(), "panicked instead of returning an error");
}
