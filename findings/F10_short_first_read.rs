use std::io::{self, Read};
use noodles_util::alignment;

struct OneByte<R>(R);
impl<R: Read> Read for OneByte<R> {
    fn read(&mut self, buf: &mut [u8]) -> io::Result<usize> {
        if buf.is_empty() { return Ok(0); }
        self.0.read(&mut buf[..1])
    }
}

#[test]
fn bam_is_detected_when_the_source_delivers_one_byte_per_read() {
    // minimal raw BAM: magic, l_text = 0, n_ref = 1: l_name = 4, "sq0\0", l_ref = 8
    let data = [b'B', b'A', b'M', 1, 0, 0, 0, 0, 1, 0, 0, 0, 4, 0, 0, 0, b's', b'q', b'0', 0, 8, 0, 0, 0];
    // control: the whole slice at once
    let mut r = alignment::io::reader::Builder::default().build_from_reader(&data[..]).unwrap();
    let h = r.read_header().unwrap();
    assert_eq!(h.reference_sequences().len(), 1);
    // same bytes, one byte per read()
    let mut r = alignment::io::reader::Builder::default().build_from_reader(OneByte(&data[..])).unwrap();
    let h = r.read_header().expect("header");
    assert_eq!(h.reference_sequences().len(), 1, "short first read: the stream was not recognised as BAM");
}
