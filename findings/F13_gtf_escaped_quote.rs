use noodles_gff::feature::{RecordBuf, record_buf::{Attributes, attributes::field::{Tag, Value}}};
use noodles_gtf as gtf;

#[test]
fn attribute_value_with_a_quote_round_trips() {
    let attributes: Attributes = [(Tag::from("note"), Value::from("a\"b"))].into_iter().collect();
    let record = RecordBuf::builder().set_attributes(attributes).build();
    let mut w = gtf::io::Writer::new(Vec::new());
    w.write_record(&record).unwrap();
    let text = w.into_inner();
    eprintln!("{}", String::from_utf8_lossy(&text));
    let mut r = gtf::io::Reader::new(&text[..]);
    let back = r.record_bufs().next().unwrap().unwrap();
    assert_eq!(back.attributes(), record.attributes());
}
