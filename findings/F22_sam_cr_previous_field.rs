// F22/F25 native demos (public API): copy to noodles-sam/tests/ of the tree before commits 8512a20 / 3161baf: both tests panic
// ("range end index N out of range for slice of length M"); they pass after the fixes.
use noodles_sam as sam;

#[test]
fn cr_at_end_of_sequence_then_empty_quality_scores() {
    let data = b"r\t4\t*\t0\t255\t*\t*\t0\t0\tAC\r\t\n";
    let mut reader = sam::io::Reader::new(&data[..]);
    let mut record = sam::Record::default();
    let r = reader.read_record(&mut record);
    println!("read: {:?}", r);
    if r.is_ok() {
        println!("seq: {:?}", record.sequence());
        println!("qual: {:?}", record.quality_scores());
    }
}

#[test]
fn cr_at_end_of_quality_scores_then_empty_data() {
    let data = b"r\t4\t*\t0\t255\t*\t*\t0\t0\tAC\tII\r\t\n";
    let mut reader = sam::io::Reader::new(&data[..]);
    let mut record = sam::Record::default();
    let r = reader.read_record(&mut record);
    println!("read: {:?}", r);
    if r.is_ok() {
        println!("qual: {:?}", record.quality_scores());
        println!("data: {:?}", record.data());
    }
}
