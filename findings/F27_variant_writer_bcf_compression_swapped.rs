// F27 (C20): noodles-util variant writer builder swaps the BCF compression arms.
// Run as noodles-util/tests/f27.rs with `--features variant`.
//   set_format(Bcf).set_compression_method(None)        -> BGZF-compressed BCF  (wanted: raw BCF)
//   set_format(Bcf).set_compression_method(Some(Bgzf))  -> raw BCF              (wanted: BGZF)
//   set_format(Bcf) alone (documented default BGZF)     -> raw BCF
use noodles_util::variant::io::{writer::Builder, CompressionMethod, Format};
use noodles_vcf as vcf;

fn emit(cm: Option<Option<CompressionMethod>>) -> Vec<u8> {
    let mut out = Vec::new();
    {
        let mut b = Builder::default().set_format(Format::Bcf);
        if let Some(cm) = cm {
            b = b.set_compression_method(cm);
        }
        let mut w = b.build_from_writer(&mut out);
        w.write_header(&vcf::Header::default()).unwrap();
    }
    out
}

#[test]
fn bcf_explicitly_uncompressed_is_raw_bcf() {
    let out = emit(Some(None));
    assert_eq!(&out[..3], b"BCF", "explicitly uncompressed BCF must start with the BCF magic");
}

#[test]
fn bcf_bgzf_is_bgzf() {
    let out = emit(Some(Some(CompressionMethod::Bgzf)));
    assert_eq!(&out[..2], &[0x1f, 0x8b], "BGZF BCF must start with the gzip magic");
}

#[test]
fn bcf_default_is_bgzf() {
    let out = emit(None);
    assert_eq!(&out[..2], &[0x1f, 0x8b], "default BCF must be BGZF-compressed");
}
