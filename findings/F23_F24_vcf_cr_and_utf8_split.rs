// F23/F24/F26 native demos (public API): copy to noodles-vcf/tests/.  Before 87b3a73 / fd976a5 the first and third test panic
// ("end byte index N is out of bounds"); the second (F24, known finding, not fixed) fails at capacity 1.
use std::io::BufReader;

use noodles_vcf as vcf;

#[test]
fn cr_at_end_of_filters_then_empty_info() {
    let data = b"sq0\t1\t.\tA\tC\t.\tPASS\r\t\n";
    let mut reader = vcf::io::Reader::new(&data[..]);
    let mut record = vcf::Record::default();
    let r = reader.read_record(&mut record);
    println!("read: {:?}", r);
    if r.is_ok() {
        println!("filters: {:?}", record.filters());
        println!("info: {:?}", record.info());
    }
}

#[test]
fn utf8_character_split_across_buffer_refills() {
    let data = "sq0\t1\t.\tA\tC\t.\tPASS\tNOTE=caf\u{e9}\n".as_bytes();
    let mut whole = vcf::io::Reader::new(data);
    let mut a = vcf::Record::default();
    whole.read_record(&mut a).unwrap();
    for cap in 1..=40 {
        let mut reader = vcf::io::Reader::new(BufReader::with_capacity(cap, data));
        let mut b = vcf::Record::default();
        let r = reader.read_record(&mut b);
        assert!(r.is_ok(), "capacity {cap}: {:?}", r);
        assert_eq!(a, b);
    }
}

#[test]
fn cr_at_end_of_info_then_empty_samples() {
    let data = b"sq0\t1\t.\tA\tC\t.\tPASS\tX\r\t\n";
    let mut reader = vcf::io::Reader::new(&data[..]);
    let mut record = vcf::Record::default();
    let r = reader.read_record(&mut record);
    println!("read: {:?}", r);
    if r.is_ok() {
        println!("info: {:?}", record.info());
        println!("samples: {:?}", record.samples());
    }
}
