// F20 native demo (public API).  Copy to noodles-bed/tests/ of the tree BEFORE commit 0acafd5 and run
// `cargo test -p noodles-bed --test F20_bed_cr_previous_field`: both tests panic with "range end index N out of
// range for slice of length M"; after the fix they pass (the accessors return parse errors / fields).
use noodles_bed as bed;

#[test]
fn cr_before_tab_then_empty_last_field() {
    let data = b"c\t5\r\t\n";
    let mut reader = bed::io::Reader::<3, _>::new(&data[..]);
    let mut record = bed::Record::<3>::default();
    let r = reader.read_record(&mut record);
    println!("read: {:?}", r);
    if r.is_ok() {
        println!("start: {:?}", record.feature_start());
        println!("end: {:?}", record.feature_end());
    }
}

#[test]
fn other_fields_cr() {
    let data = b"c\t5\t9\tX\r\t\n";
    let mut reader = bed::io::Reader::<3, _>::new(&data[..]);
    let mut record = bed::Record::<3>::default();
    let r = reader.read_record(&mut record);
    println!("read: {:?}", r);
    if r.is_ok() {
        for f in record.other_fields().iter() { println!("{:?}", f); }
    }
}
