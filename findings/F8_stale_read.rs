// place as noodles-bgzf/tests/f8_stale_read.rs: fails before commit 0e2dd06 (fix:), passes after
use std::io::{Read, Write};
use noodles_bgzf as bgzf;

#[test]
fn read_with_large_buffer_at_end_of_file_without_eof_marker() {
    let mut w = bgzf::io::Writer::new(Vec::new());
    w.write_all(b"noodles").unwrap();
    let mut data = w.finish().unwrap();
    data.truncate(data.len() - 28); // file cut exactly before the EOF marker (C13: a crash before finish)
    let mut r = bgzf::io::Reader::new(&data[..]);
    let mut buf = vec![0u8; 65536];
    let n1 = r.read(&mut buf).unwrap();
    assert_eq!(&buf[..n1], b"noodles");
    let n2 = r.read(&mut buf).unwrap();
    assert_eq!(n2, 0, "second read at end of input must report EOF, got {n2} bytes");
}
