use noodles_bcf as bcf;
use noodles_vcf::{self as vcf, header::record::value::{Map, map::{Contig, Format}}, variant::io::Write};

#[test]
fn genotypes_of_unequal_ploidy_round_trip() -> Result<(), Box<dyn std::error::Error>> {
    let header: vcf::Header = "##fileformat=VCFv4.3\n##contig=<ID=sq0,length=100>\n##FORMAT=<ID=GT,Number=1,Type=String,Description=\"Genotype\">\n#CHROM\tPOS\tID\tREF\tALT\tQUAL\tFILTER\tINFO\tFORMAT\ts0\ts1\n".parse()?;
    let _ = (Map::<Contig>::new(), Map::<Format>::from(vcf::variant::record::samples::keys::key::GENOTYPE));
    let line = "sq0\t1\t.\tA\tC,G\t.\t.\t.\tGT\t0/1/2\t0/1\n";
    let mut reader = vcf::io::Reader::new(line.as_bytes());
    let mut record = vcf::variant::RecordBuf::default();
    reader.read_record_buf(&header, &mut record)?;

    let mut w = bcf::io::Writer::new(Vec::new());
    w.write_variant_header(&header)?;
    w.write_variant_record(&header, &record)?;
    w.try_finish()?;
    let data = w.into_inner().into_inner();

    let mut r = bcf::io::Reader::new(&data[..]);
    let h = r.read_header()?;
    let mut back = vcf::variant::RecordBuf::default();
    r.read_record_buf(&h, &mut back)?;

    let mut out = vcf::io::Writer::new(Vec::new());
    out.write_variant_record(&h, &back)?;
    let text = String::from_utf8(out.into_inner())?;
    assert_eq!(text, line, "BCF round trip changed the genotypes");
    Ok(())
}
