// place as noodles-fasta/tests/f3_fai_query_overflow.rs; panics in the dev profile (overflow checks),
// wraps silently in release
use std::num::NonZero;
use noodles_core::Position;
use noodles_fasta::fai;

#[test]
fn query_with_a_record_from_a_hostile_fai_does_not_panic() {
    // "sq0\t100\t18446744073709551615\t60\t61" parses fine as a .fai line
    let record = fai::Record::new("sq0", 100, u64::MAX, NonZero::new(60).unwrap(), NonZero::new(61).unwrap());
    let r = std::panic::catch_unwind(|| record.query((Position::try_from(2).unwrap()..).into()).map(|_| ()));
    assert!(r.is_ok(), "fai::Record::query panicked (arithmetic overflow) on a hostile index record");
}
