use std::io::Write;
use noodles_bgzf as bgzf;
use noodles_core::Position;
use noodles_csi::{self as csi, BinningIndex};

fn csi_bytes(min_shift: i32, depth: i32) -> Vec<u8> {
    let mut raw = Vec::new();
    raw.extend_from_slice(b"CSI\x01");
    raw.extend_from_slice(&min_shift.to_le_bytes());
    raw.extend_from_slice(&depth.to_le_bytes());
    raw.extend_from_slice(&0i32.to_le_bytes()); // l_aux
    raw.extend_from_slice(&1i32.to_le_bytes()); // n_ref
    raw.extend_from_slice(&0i32.to_le_bytes()); // n_bin
    let mut w = bgzf::io::Writer::new(Vec::new());
    w.write_all(&raw).unwrap();
    w.finish().unwrap()
}

#[test]
fn reading_an_index_with_depth_11_is_an_error_not_a_panic() {
    let data = csi_bytes(14, 11);
    let r = std::panic::catch_unwind(|| csi::io::Reader::new(&data[..]).read_index().map(|_| ()));
    assert!(r.is_ok(), "index reader panicked on depth 11");
}

#[test]
fn querying_an_index_with_min_shift_0_is_an_error_not_a_panic() {
    let data = csi_bytes(0, 5);
    let index = csi::io::Reader::new(&data[..]).read_index().unwrap();
    let region = Position::try_from(1).unwrap()..=Position::try_from(100).unwrap();
    let r = std::panic::catch_unwind(|| index.query(0, region.into()).map(|c| c.len()));
    assert!(r.is_ok(), "query panicked on min_shift 0");
}

#[test]
fn querying_an_index_with_a_huge_geometry_is_an_error_not_a_panic() {
    let data = csi_bytes(40, 10);
    let index = csi::io::Reader::new(&data[..]).read_index().unwrap();
    let region = Position::try_from(1).unwrap()..=Position::try_from(100).unwrap();
    let r = std::panic::catch_unwind(|| index.query(0, region.into()).map(|c| c.len()));
    assert!(r.is_ok(), "query panicked on min_shift 40, depth 10");
}
