use noodles_bgzf as bgzf;
use noodles_core::Position;
use noodles_csi::{
    self as csi, BinningIndex,
    binning_index::index::{ReferenceSequence, reference_sequence::{Bin, bin::Chunk, index::BinnedIndex}},
};

#[test]
fn query_with_an_index_holding_a_bin_id_beyond_the_geometry() {
    // what csi::io::Reader builds from an index file whose bin id field is 99999 (> 37449 for depth 5):
    // the reader does not validate bin ids against the geometry
    let chunk = Chunk::new(bgzf::VirtualPosition::from(1), bgzf::VirtualPosition::from(2));
    let bins = [(99999usize, Bin::new(vec![chunk]))].into_iter().collect();
    let rs = ReferenceSequence::new(bins, BinnedIndex::default(), None);
    let index = csi::Index::builder().set_reference_sequences(vec![rs]).build();
    let region = Position::try_from(1).unwrap()..=Position::try_from(100).unwrap();
    let r = std::panic::catch_unwind(|| index.query(0, region.into()).map(|c| c.len()));
    assert!(r.is_ok(), "query panicked on an out-of-range bin id");
}
