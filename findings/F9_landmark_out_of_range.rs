use noodles_cram as cram;

fn crc32(data: &[u8]) -> u32 {
    let mut crc = 0xffff_ffffu32;
    for &b in data {
        crc ^= b as u32;
        for _ in 0..8 {
            let mask = (crc & 1).wrapping_neg();
            crc = (crc >> 1) ^ (0xedb8_8320 & mask);
        }
    }
    !crc
}

fn file_with_landmark(landmark: u8) -> Vec<u8> {
    // CRAM 3.0 file definition + one container whose header declares a landmark beyond its 8-byte body
    let mut f = Vec::new();
    f.extend_from_slice(b"CRAM\x03\x00");
    f.extend_from_slice(&[0u8; 20]);
    let mut h = Vec::new();
    h.extend_from_slice(&8i32.to_le_bytes()); // length of the container body
    h.extend_from_slice(&[0, 1, 1]); // reference id 0, start 1, span 1
    h.extend_from_slice(&[0, 0, 0]); // records, record counter, bases
    h.push(1); // block count
    h.extend_from_slice(&[1, landmark]); // 1 landmark
    let c = crc32(&h);
    h.extend_from_slice(&c.to_le_bytes());
    f.extend_from_slice(&h);
    f.extend_from_slice(&[0u8; 8]);
    f
}

#[test]
fn landmark_beyond_the_container_body_is_an_error_not_a_panic() {
    let data = file_with_landmark(100);
    let mut reader = cram::io::Reader::new(&data[..]);
    reader.read_file_definition().unwrap();
    let mut container = cram::io::reader::Container::default();
    let n = reader.read_container(&mut container).unwrap();
    assert_eq!(n, 8);
    let r = std::panic::catch_unwind(|| {
        let _ = container.compression_header().map(|_| ());
        for s in container.slices() {
            let _ = s.map(|_| ());
        }
    });
    assert!(r.is_ok(), "hostile landmark made the container accessors panic");
}
