use noodles_bgzf as bgzf;
use noodles_core::Position;
use noodles_csi::{
    BinningIndex,
    binning_index::{Indexer, index::reference_sequence::{bin::Chunk, index::{BinnedIndex, LinearIndex}}},
};

fn vp(n: u64) -> bgzf::VirtualPosition { bgzf::VirtualPosition::from(n) }

fn run<I: noodles_csi::binning_index::index::reference_sequence::Index + Default>() -> Vec<Chunk> {
    let mut indexer = Indexer::<I>::new(14, 5);
    // R: long record 1000..=40000 (spans three 16 kb windows -> 128 kb bin 585), file range [100, 200)
    indexer.add_record(Some((0, Position::try_from(1000).unwrap(), Position::try_from(40000).unwrap(), true)), Chunk::new(vp(100), vp(200))).unwrap();
    // S: short record 20000..=20001 (leaf bin 4682), file range [200, 300)
    indexer.add_record(Some((0, Position::try_from(20000).unwrap(), Position::try_from(20001).unwrap(), true)), Chunk::new(vp(200), vp(300))).unwrap();
    let index = indexer.build(1);
    let region = Position::try_from(20000).unwrap()..=Position::try_from(20010).unwrap();
    index.query(0, region.into()).unwrap()
}

#[test]
fn linear() {
    let chunks = run::<LinearIndex>();
    eprintln!("linear: {chunks:?}");
    assert!(chunks.iter().any(|c| c.start() <= vp(100) && c.end() >= vp(200)), "R's chunk [100,200) must be covered");
}

#[test]
fn binned() {
    let chunks = run::<BinnedIndex>();
    eprintln!("binned: {chunks:?}");
    assert!(chunks.iter().any(|c| c.start() <= vp(100) && c.end() >= vp(200)), "R's chunk [100,200) must be covered");
}
