// In-crate demonstration (the codec functions are pub(crate)): append to
// noodles-cram/src/codecs/rans_4x8.rs and run `cargo test -p noodles-cram --lib f14_demo`.
// Fails on the pinned commit (decode errors / wrong bytes), passes after the fix commit.
#[cfg(test)]
mod f14_demo {
    use super::*;

    fn round_trips(src: &[u8], order: Order) -> Result<bool, String> {
        let z = encode(order, src).map_err(|e| format!("encode: {e}"))?;
        let d = decode(&z).map_err(|e| format!("decode: {e}"))?;
        Ok(d == src)
    }

    #[test]
    fn smallest_symbol_is_1() {
        // first non-zero symbol is 1: the table writer treats it as a run continuation of "symbol 0"
        assert_eq!(round_trips(&[1, 2, 3, 4], Order::Zero), Ok(true));
        assert_eq!(round_trips(&[200, 201, 202, 1], Order::Zero), Ok(true));
        assert_eq!(round_trips(&[1, 2, 3, 4, 5], Order::One), Ok(true));
    }

    #[test]
    fn run_of_symbols_reaching_255() {
        // a run of consecutive symbols that extends to symbol 255: run length written as 0
        assert_eq!(round_trips(&[255, 254, 253, 252], Order::Zero), Ok(true));
        let all: Vec<u8> = (0..=255u8).collect();
        assert_eq!(round_trips(&all, Order::Zero), Ok(true));
    }
}
