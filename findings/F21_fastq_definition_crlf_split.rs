// F21 native demo (public API).  Copy to noodles-fastq/tests/ of the tree BEFORE commit 4637099 and run
// `cargo test -p noodles-fastq --test F21_fastq_definition_crlf_split`: fails at capacity 1 (name "r1\r"); passes after the fix.
use std::io::BufReader;

use noodles_fastq as fastq;

const DATA: &[u8] = b"@r1\r\nAC\r\n+\r\nII\r\n";

fn read_with_capacity(cap: usize) -> fastq::Record {
    let mut reader = fastq::io::Reader::new(BufReader::with_capacity(cap, DATA));
    let mut record = fastq::Record::default();
    reader.read_record(&mut record).unwrap();
    record
}

#[test]
fn name_does_not_depend_on_buffer_capacity() {
    let whole = read_with_capacity(64);
    assert_eq!(&whole.name()[..], b"r1");
    for cap in 1..=16 {
        let r = read_with_capacity(cap);
        assert_eq!(r, whole, "capacity {cap}: {:?}", r);
    }
}
