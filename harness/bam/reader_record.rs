// Kani harnesses mounted inside noodles-bam/src/io/reader/record.rs (sees read_block_size,
// read_exact_or_eof, validate).
#![allow(unused_imports, dead_code)]

#[path = "/verif/harness/common.rs"]
mod common;

use std::io::{self, Read};

use self::common::*;
use super::*;
use crate::record_ref::RecordRef;

// ------------------------------------------------------------------------------------------------
// C12: the record-size reader under every read schedule

fn block_size_case<const L: usize>(interrupts: u8) {
    let data: [u8; L] = kani::any();
    let mut src = Chunky::new(&data, interrupts);
    let r = kind_of(read_block_size(&mut src));
    if L >= 4 {
        // enough data: always the little-endian value, exactly 4 bytes consumed
        assert!(r == Ok(u32::from_le_bytes([data[0], data[1], data[2], data[3]]) as usize));
        assert_eq!(src.pos, 4);
    } else if L == 0 {
        assert!(r == Ok(0)); // clean EOF at a record boundary
    } else {
        // 1..=3 bytes then EOF: a short read must never be mistaken for EOF or for a record
        assert!(r == Err(io::ErrorKind::UnexpectedEof));
        assert_eq!(src.pos, L);
    }
    kani::cover!(L == 0 || src.calls >= 3);
}

// @verif prop=C12 id=O12.2a tier=quick unwind=7 bound="5-byte stream served in EVERY partition into short reads (no Interrupted): block size" fns="bam::io::reader::record::read_block_size,read_exact_or_eof"
#[kani::proof]
#[kani::unwind(7)]
fn c12_bam_block_size_any_partition() {
    block_size_case::<5>(0);
}

// @verif prop=C12,C13 id=O12.2b tier=quick unwind=7 bound="3-byte stream (ends inside the length prefix), every partition: UnexpectedEof, never EOF" fns="read_block_size,read_exact_or_eof"
#[kani::proof]
#[kani::unwind(7)]
fn c12_bam_block_size_partial_prefix_is_error() {
    block_size_case::<3>(0);
}

// @verif prop=C12 id=O12.2c tier=quick unwind=7 bound="4-byte stream, every partition, <=1 Interrupted at any call" fns="read_block_size,read_exact_or_eof"
#[kani::proof]
#[kani::unwind(7)]
fn c12_bam_block_size_interrupted() {
    block_size_case::<4>(1);
}

// @verif prop=C12,C13 id=O12.2d tier=quick unwind=4 bound="empty stream with <=1 Interrupted: clean EOF (Ok(0))" fns="read_block_size,read_exact_or_eof"
#[kani::proof]
#[kani::unwind(4)]
fn c12_bam_block_size_empty_stream() {
    block_size_case::<0>(1);
}

// ------------------------------------------------------------------------------------------------
// C13: record reader over a stream cut at any offset

const BODY: usize = 35; // 32-byte fixed part + 3 trailing auxiliary-data bytes (not covered by validate())
const REC: usize = 4 + BODY;

fn two_records(stream: &mut [u8; 2 * REC]) {
    let body: [u8; 2 * BODY] = kani::any();
    let mut k = 0;
    while k < 2 {
        let o = k * REC;
        stream[o] = BODY as u8;
        stream[o + 1] = 0;
        stream[o + 2] = 0;
        stream[o + 3] = 0;
        stream[o + 4..o + REC].copy_from_slice(&body[k * BODY..(k + 1) * BODY]);
        // l_read_name = 0, n_cigar_op = 0, l_seq = 0: 32 fixed bytes, the rest is auxiliary data
        stream[o + 4 + 8] = 0;
        stream[o + 4 + 12] = 0;
        stream[o + 4 + 13] = 0;
        stream[o + 4 + 16] = 0;
        stream[o + 4 + 17] = 0;
        stream[o + 4 + 18] = 0;
        stream[o + 4 + 19] = 0;
        k += 1;
    }
}

fn expected_after(avail: usize) -> Result<usize, io::ErrorKind> {
    if avail >= REC {
        Ok(BODY)
    } else if avail == 0 {
        Ok(0)
    } else {
        Err(io::ErrorKind::UnexpectedEof) // the stream ends inside a record: an error, not EOF
    }
}

// @verif prop=C13 id=O13.1a tier=quick unwind=4 timeout=900 bound="stream = two small BAM records (4+35 bytes each: symbolic fixed fields + 3 aux bytes) cut at EVERY offset 0..=78; first read_record call" fns="bam::io::reader::record::read_record,read_block_size,read_exact_or_eof,validate"
#[kani::proof]
#[kani::unwind(4)]
fn c13_bam_read_record_truncated_first() {
    let mut stream = [0u8; 2 * REC];
    two_records(&mut stream);
    let c: usize = kani::any();
    kani::assume(c <= 2 * REC);
    let mut src: &[u8] = &stream[..c];
    let mut buf = vec![0u8; 64];
    let r = kind_of(read_record(&mut src, &mut buf));
    assert!(r == expected_after(c));
    if r == Ok(BODY) {
        assert_eq!(buf.len(), BODY);
        let i: usize = kani::any();
        kani::assume(i < BODY);
        assert_eq!(buf[i], stream[4 + i]); // unchanged, never fabricated
        assert_eq!(src.len(), c - REC);
    }
    kani::cover!(c == 2 && r.is_err());
    kani::cover!(c == 20 && r.is_err());
    kani::cover!(c == REC - 1 && r.is_err()); // cut inside the auxiliary data
    std::mem::forget(buf);
}

// @verif prop=C13 id=O13.1b tier=quick unwind=4 timeout=900 bound="same stream; second read_record call after a complete first record, cut at every offset 39..=78" fns="read_record"
#[kani::proof]
#[kani::unwind(4)]
fn c13_bam_read_record_truncated_second() {
    let mut stream = [0u8; 2 * REC];
    two_records(&mut stream);
    let c: usize = kani::any();
    kani::assume(c >= REC && c <= 2 * REC);
    let mut src: &[u8] = &stream[REC..c];
    let mut buf = vec![0u8; 64];
    let r = kind_of(read_record(&mut src, &mut buf));
    assert!(r == expected_after(c - REC));
    if r == Ok(BODY) {
        assert_eq!(buf.len(), BODY);
        let i: usize = kani::any();
        kani::assume(i < BODY);
        assert_eq!(buf[i], stream[REC + 4 + i]);
        assert!(src.is_empty());
    }
    kani::cover!(c == REC);
    kani::cover!(c == 2 * REC);
    std::mem::forget(buf);
}

// ------------------------------------------------------------------------------------------------
// C15/C05: validate() => the lazy accessors' bounds are in range

const MAXREC: usize = 44;

fn any_record(buf: &mut [u8; MAXREC]) -> usize {
    *buf = kani::any();
    let n: usize = kani::any();
    kani::assume(n <= MAXREC);
    n
}

// @verif prop=C15,C05 id=O5.8/name-seq-qual-data tier=quick unwind=14 timeout=900 bound="ARBITRARY buffer of 0..=44 bytes (symbolic length and contents): validate(src).is_ok() => RecordRef name(), sequence(), quality_scores(), data() and all fixed-field accessors do not panic and slice inside the buffer" fns="bam::io::reader::record::validate,RecordRef::new_unchecked,RecordRef::name,RecordRef::sequence,RecordRef::quality_scores,RecordRef::data,fixed-field accessors"
#[kani::proof]
#[kani::unwind(14)]
fn c15_bam_validate_implies_accessors_in_range() {
    let mut buf = [0u8; MAXREC];
    let n = any_record(&mut buf);
    let src = &buf[..n];
    let v = validate(src);
    if v.is_ok() {
        assert!(n >= 32);
        let r = RecordRef::new_unchecked(src);
        let _ = r.flags();
        let _ = r.mapping_quality();
        let _ = r.template_length();
        let a = r.alignment_start();
        std::mem::forget(a);
        let a = r.mate_alignment_start();
        std::mem::forget(a);
        let a = r.reference_sequence_id();
        std::mem::forget(a);
        let a = r.mate_reference_sequence_id();
        std::mem::forget(a);
        let name = r.name();
        if let Some(nm) = name {
            assert!(nm.len() <= n - 32);
        }
        let seq = r.sequence();
        assert!(seq.len() <= 2 * (n - 32));
        let q = r.quality_scores();
        assert!(q.len() <= n - 32);
        let d = r.data();
        let _ = d;
        kani::cover!(n == MAXREC && buf[8] > 0 && buf[16] > 2);
    }
    std::mem::forget(v);
}

// @verif prop=C15,C05 id=O5.8/cigar tier=off off_reason="does not fit: >2400 s (CG-tag probe through get_raw_cigar)" unwind=14 timeout=2400 bound="ARBITRARY buffer of 0..=44 bytes: validate ok => RecordRef::cigar() (incl. the kSmN / CG-tag probe) does not panic" fns="validate,RecordRef::cigar,record::data::get_raw_cigar"
#[kani::proof]
#[kani::unwind(14)]
fn c15_bam_validate_implies_cigar_in_range() {
    let mut buf = [0u8; MAXREC];
    let n = any_record(&mut buf);
    let src = &buf[..n];
    let v = validate(src);
    if v.is_ok() {
        let r = RecordRef::new_unchecked(src);
        let c = r.cigar();
        assert!(c.len() <= (n - 32) / 4);
        kani::cover!(c.len() == 2);
    }
    std::mem::forget(v);
}
