// Kani harnesses mounted inside noodles-bam/src/record/codec/decoder.rs: field-level
// encoder -> decoder inverses (C05). The encoder side is reached through the wrappers in
// harness/bam/encoder.rs.
#![allow(unused_imports, dead_code)]

use bstr::{BStr, BString, ByteSlice};
use noodles_core::Position;
use noodles_sam::alignment::{
    record::{
        Flags, MappingQuality,
        cigar::{Op, op::Kind},
    },
    record_buf::{Cigar, QualityScores, Sequence},
};

use super::*;
use crate::record::codec::encoder::verif_kani as enc;

// @verif prop=C05 id=O5.1/position tier=quick unwind=6 bound="ALL usize positions (and None): accepted iff <= 2^31, accepted values read back equal, None <-> -1" fns="encoder::position::write_position,decoder::position::read_position"
#[kani::proof]
#[kani::unwind(6)]
fn c05_position_roundtrip() {
    let n: usize = kani::any();
    let p = Position::new(n);
    let mut dst = Vec::with_capacity(8);
    let ok = enc::enc_position(&mut dst, p);
    match p {
        None => {
            assert!(ok && dst.len() == 4);
            assert_eq!(i32::from_le_bytes([dst[0], dst[1], dst[2], dst[3]]), -1);
        }
        Some(_) => {
            // POS is a 0-based int32: 1-based positions up to 2^31 fit, larger ones must be rejected
            assert_eq!(ok, n <= (1usize << 31));
            if ok {
                assert_eq!(dst.len(), 4);
                assert_eq!(i32::from_le_bytes([dst[0], dst[1], dst[2], dst[3]]) as i64, n as i64 - 1);
            } else {
                assert_eq!(dst.len(), 0); // nothing truncated/wrapped was written
            }
        }
    }
    if ok {
        let mut src: &[u8] = &dst[..];
        let back = read_position(&mut src);
        assert!(back == Ok(p));
        assert!(src.is_empty());
    }
    kani::cover!(ok && n == (1usize << 31));
    kani::cover!(!ok);
    std::mem::forget(dst);
}

// @verif prop=C05,C15 id=O5.1/position-decode tier=quick unwind=6 bound="ALL 4-byte patterns into read_position / read_reference_sequence_id: -1 <-> None, other negatives are errors, never a panic or a wrapped value" fns="decoder::position::read_position,decoder::reference_sequence_id::read_reference_sequence_id"
#[kani::proof]
#[kani::unwind(6)]
fn c05_position_and_reference_id_decode_all_patterns() {
    let b: [u8; 4] = kani::any();
    let v = i32::from_le_bytes(b);
    let mut src: &[u8] = &b[..];
    let r = read_position(&mut src);
    match v {
        -1 => assert!(r == Ok(None)),
        v if v < 0 => assert!(r.is_err()),
        v => assert!(r == Ok(Position::new(v as usize + 1))),
    }
    let mut src: &[u8] = &b[..];
    let r = read_reference_sequence_id(&mut src);
    match v {
        -1 => assert!(r == Ok(None)),
        v if v < 0 => assert!(r.is_err()),
        v => assert!(r == Ok(Some(v as usize))),
    }
}

// @verif prop=C05 id=O5.1/flags-mapq-tlen tier=quick unwind=6 bound="ALL u16 flags (12 defined bits preserved), ALL u8 mapping qualities (255 <-> missing), ALL i32 template lengths" fns="write_flags,read_flags,write_mapping_quality,read_mapping_quality,write_template_length,read_template_length"
#[kani::proof]
#[kani::unwind(6)]
fn c05_flags_mapq_tlen_roundtrip() {
    let (f, q, t): (u16, u8, i32) = kani::any();
    let mut dst = Vec::with_capacity(8);
    enc::enc_flags(&mut dst, Flags::from(f));
    enc::enc_mapq(&mut dst, MappingQuality::new(q));
    enc::enc_tlen(&mut dst, t);
    assert_eq!(dst.len(), 7);
    // little endian; the 12 flag bits the SAM spec defines are kept (Flags drops undefined bits)
    assert!(dst[0] == f as u8 && dst[1] & 0x0f == ((f >> 8) as u8) & 0x0f);
    assert_eq!(dst[2], q); // 255 is the missing code itself
    let mut src: &[u8] = &dst[..];
    assert!(read_flags(&mut src) == Ok(Flags::from(f)));
    assert_eq!(u16::from(Flags::from(f)) & 0x0fff, f & 0x0fff);
    let mq = read_mapping_quality(&mut src).unwrap();
    assert_eq!(mq.map(u8::from), if q == 255 { None } else { Some(q) });
    assert!(read_template_length(&mut src) == Ok(t));
    assert!(src.is_empty());
    std::mem::forget(dst);
}

// @verif prop=C05 id=O5.2 tier=quick unwind=6 bound="ALL u32 packed CIGAR words through decode_op and the raw-CIGAR writer; every (kind, len<2^28) through the pair" fns="decoder::cigar::op::decode_op,decode_kind,encoder::cigar::write_four_byte_packed_cigar"
#[kani::proof]
#[kani::unwind(6)]
fn c05_cigar_op_roundtrip_all_words() {
    let n: u32 = kani::any();
    let r = super::cigar::decode_op(n);
    let kind_nibble = n & 0x0f;
    // the packed-CIGAR writer accepts exactly the words the decoder accepts
    let mut dst = Vec::with_capacity(8);
    let w = enc::enc_packed_cigar(&mut dst, &n.to_le_bytes());
    assert_eq!(w, kind_nibble <= 8);
    match r {
        Ok(op) => {
            assert!(kind_nibble <= 8);
            assert_eq!(op.len(), (n >> 4) as usize);
            // spec table MIDNSHP=X -> 0..8
            let k = match op.kind() {
                Kind::Match => 0,
                Kind::Insertion => 1,
                Kind::Deletion => 2,
                Kind::Skip => 3,
                Kind::SoftClip => 4,
                Kind::HardClip => 5,
                Kind::Pad => 6,
                Kind::SequenceMatch => 7,
                Kind::SequenceMismatch => 8,
            };
            assert_eq!(k, kind_nibble);
            // written bytes are the same word
            assert!(w && dst.len() == 4 && u32::from_le_bytes([dst[0], dst[1], dst[2], dst[3]]) == n);
        }
        Err(_) => assert!(kind_nibble > 8),
    }
    std::mem::forget(dst);
}

fn canon(b: u8) -> u8 {
    // SAM spec 4.2.3: "=ACMGRSVTWYHKDBN" case-insensitively, everything else -> N
    const BASES: [u8; 16] = *b"=ACMGRSVTWYHKDBN";
    let u = b.to_ascii_uppercase();
    let mut i = 0;
    let mut out = b'N';
    while i < 16 {
        if BASES[i] == u {
            out = u;
        }
        i += 1;
    }
    out
}

fn sequence_case<const L: usize>() {
    let bases: [u8; L] = kani::any();
    let mut dst = Vec::with_capacity(8);
    assert!(enc::enc_raw_sequence(&mut dst, L, &bases));
    assert_eq!(dst.len(), L.div_ceil(2));
    if L % 2 == 1 {
        assert_eq!(dst[L / 2] & 0x0f, 0); // odd length: low nibble of the last byte is zero
    }
    let mut seq = Sequence::default();
    let mut src: &[u8] = &dst[..];
    read_sequence(&mut src, &mut seq, L).unwrap();
    assert!(src.is_empty());
    let got: &[u8] = seq.as_ref();
    assert_eq!(got.len(), L);
    let i: usize = kani::any();
    kani::assume(i < L);
    assert_eq!(got[i], canon(bases[i]));
    kani::cover!(got[i] == b'N' && bases[i] != b'N' && bases[i] != b'n');
    kani::cover!(got[i] == b'=');
    std::mem::forget(dst);
    std::mem::forget(seq);
}

// @verif prop=C05 id=O5.3/3 tier=quick unwind=18 bound="3 bases (odd length), ALL byte values per base: 4-bit packing -> decode == spec alphabet canonicalisation" fns="encoder::sequence::write_sequence,write_raw_sequence,pack_bases,encode_base,decoder::sequence::read_sequence"
#[kani::proof]
#[kani::unwind(18)]
fn c05_sequence_roundtrip_3() {
    sequence_case::<3>();
}

// @verif prop=C05 id=O5.3/4 tier=quick unwind=18 bound="4 bases (even length), ALL byte values per base" fns="encoder::sequence::write_sequence,decoder::sequence::read_sequence"
#[kani::proof]
#[kani::unwind(18)]
fn c05_sequence_roundtrip_4() {
    sequence_case::<4>();
}

fn quality_case<const L: usize>() {
    let q: [u8; L] = kani::any();
    let mut dst = Vec::with_capacity(8);
    let ok = enc::enc_raw_quality_scores(&mut dst, L, &q);
    let mut all_valid = true;
    let mut i = 0;
    while i < L {
        if q[i] > 93 {
            all_valid = false;
        }
        i += 1;
    }
    assert_eq!(ok, all_valid); // scores above 93 are rejected, never truncated
    if ok {
        assert_eq!(dst.len(), L);
        let mut qs = QualityScores::default();
        let mut src: &[u8] = &dst[..];
        read_quality_scores(&mut src, &mut qs, L).unwrap();
        let got: &[u8] = qs.as_ref();
        assert_eq!(got.len(), L);
        let j: usize = kani::any();
        kani::assume(j < L);
        assert_eq!(got[j], q[j]);
        std::mem::forget(qs);
    }
    // missing qualities <-> l_seq x 0xFF
    let mut d2 = Vec::with_capacity(8);
    assert!(enc::enc_raw_quality_scores(&mut d2, L, &[]));
    assert_eq!(d2.len(), L);
    let j: usize = kani::any();
    kani::assume(j < L);
    assert_eq!(d2[j], 0xff);
    let mut qs = QualityScores::default();
    let mut src: &[u8] = &d2[..];
    read_quality_scores(&mut src, &mut qs, L).unwrap();
    let got: &[u8] = qs.as_ref();
    assert!(got.is_empty());
    // length mismatch is an error
    let mut d3 = Vec::with_capacity(8);
    assert!(!enc::enc_raw_quality_scores(&mut d3, L + 1, &q));
    std::mem::forget(qs);
    std::mem::forget(dst);
    std::mem::forget(d2);
    std::mem::forget(d3);
}

// @verif prop=C05 id=O5.4 tier=quick unwind=6 stubs="alloc::fmt::format->empty String" bound="3 quality bytes, ALL byte values: accepted iff all <=93, preserved; missing <-> 3 x 0xFF; length mismatch rejected" fns="encoder::quality_scores::write_quality_scores,write_raw_quality_scores,is_valid_score,decoder::quality_scores::read_quality_scores"
#[kani::proof]
#[kani::unwind(6)]
#[kani::stub(std::fmt::format, stub_fmt_format)]
fn c05_quality_scores_roundtrip_3() {
    quality_case::<3>();
}

pub fn stub_fmt_format(_args: std::fmt::Arguments<'_>) -> String {
    String::new()
}

// @verif prop=C05 id=O5.1/name-length tier=quick unwind=6 bound="name length 0..=300 (bytes irrelevant for the length byte): l_read_name = len+1 iff it fits u8, else error; decoder rejects 0" fns="encoder::name::write_length,decoder::name::read_length"
#[kani::proof]
#[kani::unwind(6)]
fn c05_name_length_byte() {
    static BYTES: [u8; 300] = [b'a'; 300];
    let n: usize = kani::any();
    kani::assume(n <= 300);
    let name: &BStr = BYTES[..n].as_bstr();
    let mut dst = Vec::with_capacity(4);
    let ok = enc::enc_name_length(&mut dst, Some(name));
    assert_eq!(ok, n + 1 <= 255);
    if ok {
        assert!(dst.len() == 1 && dst[0] as usize == n + 1);
        let mut src: &[u8] = &dst[..];
        let l = super::name::read_length(&mut src).unwrap();
        assert_eq!(l.get(), n + 1);
    } else {
        assert!(dst.is_empty());
    }
    // missing name is "*\0": length 2
    let mut d2 = Vec::with_capacity(4);
    assert!(enc::enc_name_length(&mut d2, None));
    assert!(d2.len() == 1 && d2[0] == 2);
    // a zero length byte is rejected by the decoder
    let z = [0u8];
    let mut src: &[u8] = &z[..];
    assert!(super::name::read_length(&mut src).is_err());
    std::mem::forget(dst);
    std::mem::forget(d2);
}

// @verif prop=C05 id=O5.1/l_seq tier=quick unwind=6 bound="ALL usize sequence lengths: written iff <= u32::MAX" fns="encoder::sequence::write_length,decoder::sequence::read_length"
#[kani::proof]
#[kani::unwind(6)]
fn c05_sequence_length_field() {
    let n: usize = kani::any();
    let mut dst = Vec::with_capacity(8);
    let ok = enc::enc_seq_length(&mut dst, n);
    assert_eq!(ok, n <= u32::MAX as usize);
    if ok {
        let mut src: &[u8] = &dst[..];
        assert!(sequence::read_length(&mut src) == Ok(n));
    } else {
        assert!(dst.is_empty());
    }
    std::mem::forget(dst);
}

// thorough: more lengths
macro_rules! seq_harness {
    ($name:ident, $n:expr) => {
        #[kani::proof]
        #[kani::unwind(18)]
        fn $name() {
            sequence_case::<$n>();
        }
    };
}
// @verif prop=C05 id=O5.3/1 tier=thorough harness=c05_sequence_roundtrip_1 unwind=18 bound="1 base, all byte values" fns="write_sequence,read_sequence"
seq_harness!(c05_sequence_roundtrip_1, 1);
// @verif prop=C05 id=O5.3/2 tier=thorough harness=c05_sequence_roundtrip_2 unwind=18 bound="2 bases, all byte values" fns="write_sequence,read_sequence"
seq_harness!(c05_sequence_roundtrip_2, 2);
// @verif prop=C05 id=O5.3/5 tier=thorough harness=c05_sequence_roundtrip_5 unwind=18 bound="5 bases, all byte values" fns="write_sequence,read_sequence"
seq_harness!(c05_sequence_roundtrip_5, 5);
// @verif prop=C05 id=O5.3/6 tier=thorough harness=c05_sequence_roundtrip_6 unwind=18 bound="6 bases, all byte values" fns="write_sequence,read_sequence"
seq_harness!(c05_sequence_roundtrip_6, 6);

// @verif prop=C05 id=O5.4/1 tier=thorough unwind=6 stubs="alloc::fmt::format->empty String" bound="1 quality byte, all values" fns="write_quality_scores,read_quality_scores"
#[kani::proof]
#[kani::unwind(6)]
#[kani::stub(std::fmt::format, stub_fmt_format)]
fn c05_quality_scores_roundtrip_1() {
    quality_case::<1>();
}

// @verif prop=C05 id=O5.4/4 tier=thorough unwind=7 stubs="alloc::fmt::format->empty String" bound="4 quality bytes, all values" fns="write_quality_scores,read_quality_scores"
#[kani::proof]
#[kani::unwind(7)]
#[kani::stub(std::fmt::format, stub_fmt_format)]
fn c05_quality_scores_roundtrip_4() {
    quality_case::<4>();
}
