// Mounted as `pub(crate) mod verif_kani` inside noodles-bam/src/record/codec/encoder.rs.
// Exposes thin wrappers of the encoder's pub(super) field writers so that the decoder-side
// harness (harness/bam/decoder.rs) can compose writer -> reader, plus encoder-only harnesses.
#![allow(unused_imports, dead_code)]

use bstr::BStr;
use noodles_core::Position;
use noodles_sam::alignment::record::{
    Flags, MappingQuality, QualityScoresRef, SequenceRef,
    cigar::{Op, op::Kind},
};

use super::*;

pub(crate) fn enc_position(dst: &mut Vec<u8>, p: Option<Position>) -> bool {
    let r = super::position::write_position(dst, p);
    let ok = r.is_ok();
    std::mem::forget(r);
    ok
}

pub(crate) fn enc_flags(dst: &mut Vec<u8>, f: Flags) {
    super::flags::write_flags(dst, f)
}

pub(crate) fn enc_mapq(dst: &mut Vec<u8>, q: Option<MappingQuality>) {
    super::mapping_quality::write_mapping_quality(dst, q)
}

pub(crate) fn enc_tlen(dst: &mut Vec<u8>, n: i32) {
    super::template_length::write_template_length(dst, n)
}

pub(crate) fn enc_name_length(dst: &mut Vec<u8>, name: Option<&BStr>) -> bool {
    let r = super::name::write_length(dst, name);
    let ok = r.is_ok();
    std::mem::forget(r);
    ok
}

pub(crate) fn enc_name(dst: &mut Vec<u8>, name: Option<&BStr>) -> bool {
    let r = super::name::write_name(dst, name);
    let ok = r.is_ok();
    std::mem::forget(r);
    ok
}

pub(crate) fn enc_bin(dst: &mut Vec<u8>, s: Option<Position>, e: Option<Position>) {
    super::bin::write_bin(dst, s, e)
}

pub(crate) fn enc_raw_sequence(dst: &mut Vec<u8>, read_length: usize, bases: &[u8]) -> bool {
    let r = super::sequence::write_sequence(dst, read_length, SequenceRef::Raw(bases));
    let ok = r.is_ok();
    std::mem::forget(r);
    ok
}

pub(crate) fn enc_seq_length(dst: &mut Vec<u8>, n: usize) -> bool {
    let r = super::sequence::write_length(dst, n);
    let ok = r.is_ok();
    std::mem::forget(r);
    ok
}

pub(crate) fn enc_raw_quality_scores(dst: &mut Vec<u8>, base_count: usize, q: &[u8]) -> bool {
    let r = super::quality_scores::write_quality_scores(dst, base_count, QualityScoresRef::Raw(q));
    let ok = r.is_ok();
    std::mem::forget(r);
    ok
}

pub(crate) fn enc_packed_cigar(dst: &mut Vec<u8>, raw: &[u8]) -> bool {
    use noodles_sam::alignment::record::CigarRef;
    let r = super::cigar::write_cigar(dst, CigarRef::FourBytePacked(raw));
    let ok = r.is_ok();
    std::mem::forget(r);
    ok
}

fn pos(n: usize) -> Position {
    Position::new(n).unwrap()
}

/// SAM spec 5.3 reg2bin (C source transcribed; beg 0-based inclusive, end 0-based exclusive)
fn spec_reg2bin(beg: i64, end: i64) -> i64 {
    let end = end - 1;
    if beg >> 14 == end >> 14 {
        return ((1 << 15) - 1) / 7 + (beg >> 14);
    }
    if beg >> 17 == end >> 17 {
        return ((1 << 12) - 1) / 7 + (beg >> 17);
    }
    if beg >> 20 == end >> 20 {
        return ((1 << 9) - 1) / 7 + (beg >> 20);
    }
    if beg >> 23 == end >> 23 {
        return ((1 << 6) - 1) / 7 + (beg >> 23);
    }
    if beg >> 26 == end >> 26 {
        return ((1 << 3) - 1) / 7 + (beg >> 26);
    }
    0
}

// @verif prop=C05,C17 id=O5.7 tier=quick unwind=4 bound="ALL alignment spans 1<=start<=end<=2^29 (1-based inclusive), plus the unmapped case" fns="encoder::bin::write_bin,encoder::bin::region_to_bin"
#[kani::proof]
#[kani::unwind(4)]
fn c05_bin_is_spec_reg2bin() {
    let (s, e): (usize, usize) = kani::any();
    kani::assume(1 <= s && s <= e && e <= (1 << 29));
    let mut dst = Vec::with_capacity(4);
    enc_bin(&mut dst, Some(pos(s)), Some(pos(e)));
    assert_eq!(dst.len(), 2);
    let bin = u16::from_le_bytes([dst[0], dst[1]]) as i64;
    // 1-based inclusive [s,e] == 0-based half-open [s-1, e)
    assert_eq!(bin, spec_reg2bin(s as i64 - 1, e as i64));
    kani::cover!(bin == 0);
    kani::cover!(bin == 585);
    let mut d2 = Vec::with_capacity(4);
    enc_bin(&mut d2, None, None);
    assert_eq!(u16::from_le_bytes([d2[0], d2[1]]), 4680); // reg2bin(-1, 0)
    std::mem::forget(dst);
    std::mem::forget(d2);
}

// @verif prop=C05 id=canary tier=quick expect=fail unwind=4 bound="deliberately wrong: claims records never land in bin 0" fns="encoder::bin::write_bin"
#[kani::proof]
#[kani::unwind(4)]
fn c05_canary_bin_never_zero() {
    let (s, e): (usize, usize) = kani::any();
    kani::assume(1 <= s && s <= e && e <= (1 << 29));
    let mut dst = Vec::with_capacity(4);
    enc_bin(&mut dst, Some(pos(s)), Some(pos(e)));
    assert!(u16::from_le_bytes([dst[0], dst[1]]) != 0);
    std::mem::forget(dst);
}

// ------------------------------------------------------------------------------------------------
// C05 O5.6: n_cigar_op overflow rule (kSmN placeholder), generic over the Cigar trait

struct BigCigar {
    len: usize,
    ops: [Op; 2],
}

impl noodles_sam::alignment::record::Cigar for BigCigar {
    fn is_empty(&self) -> bool {
        self.len == 0
    }

    fn len(&self) -> usize {
        self.len
    }

    fn iter(&self) -> Box<dyn Iterator<Item = std::io::Result<Op>> + '_> {
        // the harness does not materialise 70 000 operations: the rule under test only looks at len()
        // and at alignment_span(), which sums whatever iter() yields
        Box::new(self.ops.iter().map(|op| Ok(*op)))
    }
}

// @verif prop=C05 id=O5.6 tier=quick unwind=5 timeout=600 bound="CIGAR with ANY operation count (symbolic len(), incl. 65535/65536/70000) and ANY l_seq: n_cigar_op is the count if it fits u16, else 2 and the placeholder is exactly [SoftClip(l_seq), Skip(reference span)] (SAM 4.2.2)" fns="bam::record::codec::encoder::cigar::overflowing_write_cigar_op_count,Cigar::alignment_span"
#[kani::proof]
#[kani::unwind(5)]
fn c05_cigar_op_count_overflow_rule() {
    let (len, base_count, m, d): (usize, usize, usize, usize) = kani::any();
    kani::assume(m < (1 << 28) && d < (1 << 28));
    let cigar = BigCigar { len, ops: [Op::new(Kind::Match, m), Op::new(Kind::Deletion, d)] };
    let mut dst = Vec::with_capacity(4);
    let r = super::cigar::overflowing_write_cigar_op_count(&mut dst, base_count, &cigar).unwrap();
    assert_eq!(dst.len(), 2);
    let n = u16::from_le_bytes([dst[0], dst[1]]) as usize;
    if len <= 65535 {
        assert!(n == len && r.is_none());
    } else {
        assert_eq!(n, 2);
        let placeholder = r.unwrap();
        let ops: &[Op] = placeholder.as_ref();
        assert_eq!(ops.len(), 2);
        assert!(ops[0] == Op::new(Kind::SoftClip, base_count));
        assert!(ops[1] == Op::new(Kind::Skip, m + d));
        kani::cover!(len == 65536);
        std::mem::forget(placeholder);
    }
    std::mem::forget(dst);
}
