// Kani harness mounted inside noodles-bam/src/record/data.rs (lazy auxiliary data of a BAM record).
#![allow(unused_imports, dead_code)]

use super::*;

/// cpuid inline asm is not executable by Kani: report "no optional CPU features" (memchr inside bstr
/// then runs its real SSE2 path)
pub fn fake_cpuid(_leaf: u32, _sub_leaf: u32) -> std::arch::x86_64::CpuidResult {
    std::arch::x86_64::CpuidResult { eax: 0, ebx: 0, ecx: 0, edx: 0 }
}

pub fn stub_fmt_format(_args: std::fmt::Arguments<'_>) -> String {
    String::new()
}

// @verif prop=C15,C05 id=O15.bam.data tier=off off_reason="does not fit: >900 s (bstr/memchr SSE2 path + boxed array views under symbolic bytes)" unwind=14 timeout=900 stubs="std::arch::x86_64::__cpuid_count->no optional CPU features,alloc::fmt::format->empty String" bound="ARBITRARY auxiliary-data region of 0..=12 bytes (what follows the validated part of a BAM record): iterating the first two fields of the lazy Data view returns Ok/Err items, never panics" fns="bam::record::Data::iter,decode_field,decode_tag,decode_type,decode_value,decode_array,read_string"
#[kani::proof]
#[kani::unwind(14)]
#[kani::stub(std::arch::x86_64::__cpuid_count, fake_cpuid)]
#[kani::stub(std::fmt::format, stub_fmt_format)]
fn c15_bam_lazy_data_fields_arbitrary_bytes() {
    let buf: [u8; 12] = kani::any();
    let n: usize = kani::any();
    kani::assume(n <= 12);
    let data = Data::new(&buf[..n]);
    let mut it = data.iter();
    let a = it.next();
    kani::cover!(matches!(&a, Some(Ok(_))));
    std::mem::forget(a);
    let b = it.next();
    std::mem::forget(b);
}
