// Kani harnesses mounted inside noodles-fastq/src/io/reader/record.rs.
#![allow(unused_imports, dead_code)]

#[path = "/verif/harness/common.rs"]
mod common;

use std::io::{self, BufRead, Read};

use self::common::*;
use super::*;

/// Model of `memchr::memchr` used under cfg(kani) by consume_line (hook "memchr shim"): first occurrence or
/// None, as a plain loop; see DESIGN R18.  Part of the trusted base.
pub(crate) fn memchr_model(needle: u8, haystack: &[u8]) -> Option<usize> {
    let mut i = 0;
    while i < haystack.len() {
        if haystack[i] == needle {
            return Some(i);
        }
        i += 1;
    }
    None
}

fn plus_line_case(budget: u8) {
    let b: [u8; 3] = kani::any();
    kani::assume(b[0] != b'\n' && b[1] != b'\n');
    let data = [b'+', b[0], b[1], b'\n', b[2]];
    let mut src = ChunkyBuf::new(&data).with_partial_budget(budget);
    let n = consume_plus_line(&mut src).unwrap();
    assert_eq!(n, 4);
    assert_eq!(src.pos, 4);
}

// @verif prop=C12 id=O12.7a tier=thorough unwind=8 stubs="memchr::memchr->first-occurrence loop (cfg(kani) source shim, documented contract)" bound="FASTQ plus line '+' b0 b1 LF followed by one more byte (2 symbolic non-LF bytes: includes CR LF endings and repeated names), delivered split in two fill_buf windows at ANY offset (solver-placed): exactly the 4 bytes of the line are consumed, the next byte is left" fns="fastq::io::reader::record::consume_plus_line,consume_line,read_u8"
#[kani::proof]
#[kani::unwind(8)]
fn c12_fastq_plus_line_any_windows() {
    plus_line_case(1);
}

// @verif prop=C12 id=O12.7a/3 tier=thorough unwind=8 stubs="memchr::memchr->first-occurrence loop (cfg(kani) source shim, documented contract)" bound="as O12.7a with at most TWO partial windows (every split in up to three pieces)" fns="fastq::io::reader::record::consume_plus_line,consume_line,read_u8"
#[kani::proof]
#[kani::unwind(8)]
fn c12_fastq_plus_line_three_windows() {
    plus_line_case(2);
}

// @verif prop=C12,C13 id=O12.7b tier=quick unwind=8 stubs="memchr::memchr->first-occurrence loop (cfg(kani) source shim, documented contract)" bound="plus line without terminator at EOF ('+' b0 b1 then EOF), any windows: consumes the 3 bytes, no panic, no loop; a first byte other than '+' is InvalidData" fns="fastq::io::reader::record::consume_plus_line,consume_line,read_u8"
#[kani::proof]
#[kani::unwind(8)]
fn c12_fastq_plus_line_unterminated() {
    let b: [u8; 3] = kani::any();
    kani::assume(b[1] != b'\n' && b[2] != b'\n');
    let data = [b[0], b[1], b[2]];
    let mut src = ChunkyBuf::new(&data).with_partial_budget(2);
    match consume_plus_line(&mut src) {
        Ok(n) => {
            assert!(b[0] == b'+');
            assert!(n == 3 && src.pos == 3);
        }
        Err(e) => {
            assert!(b[0] != b'+');
            std::mem::forget(e);
        }
    }
}

// @verif prop=C12 id=O12.7c tier=thorough unwind=7 stubs="memchr::memchr->first-occurrence loop (cfg(kani) source shim, documented contract)" bound="FASTQ plus line '+' b0 LF followed by one more byte (1 symbolic non-LF byte, e.g. CR), split in two fill_buf windows at ANY offset: exactly the 3 bytes of the line are consumed" fns="fastq::io::reader::record::consume_plus_line,consume_line,read_u8"
#[kani::proof]
#[kani::unwind(7)]
fn c12_fastq_short_plus_line_any_windows() {
    let b: [u8; 2] = kani::any();
    kani::assume(b[0] != b'\n');
    let data = [b'+', b[0], b'\n', b[1]];
    let mut src = ChunkyBuf::new(&data).with_partial_budget(1);
    let n = consume_plus_line(&mut src).unwrap();
    assert_eq!(n, 3);
    assert_eq!(src.pos, 3);
}
