// Kani harnesses mounted inside noodles-fastq/src/io/reader/record/definition.rs.
#![allow(unused_imports, dead_code)]

#[path = "/verif/harness/common.rs"]
mod common;

use std::io::{self, BufRead, Read};

use self::common::*;
use super::*;

/// Model of `memchr::memchr3` used under cfg(kani) by read_definition (hook "memchr shim"): the
/// documented contract -- index of the FIRST byte equal to one of the three needles, None if absent -- as a
/// plain loop; see DESIGN R18.  Part of the trusted base.
pub(crate) fn memchr3_model(n1: u8, n2: u8, n3: u8, haystack: &[u8]) -> Option<usize> {
    let mut i = 0;
    while i < haystack.len() {
        if haystack[i] == n1 || haystack[i] == n2 || haystack[i] == n3 {
            return Some(i);
        }
        i += 1;
    }
    None
}

fn name_byte(b: u8) -> bool {
    b != b' ' && b != b'\t' && b != b'\n' && b != b'\r'
}

fn definition_case(budget: u8, crlf: bool) {
    definition_case_with(crlf, |b| b.with_partial_budget(budget))
}

fn definition_case_with(crlf: bool, chunking: impl FnOnce(ChunkyBuf<'_>) -> ChunkyBuf<'_>) {
    definition_case_full(crlf, true, chunking)
}

fn definition_case_full(crlf: bool, symbolic_name: bool, chunking: impl FnOnce(ChunkyBuf<'_>) -> ChunkyBuf<'_>) {
    let n: [u8; 2] = if symbolic_name { kani::any() } else { *b"r1" };
    kani::assume(name_byte(n[0]) && name_byte(n[1]));
    let crlf_data = [b'@', n[0], n[1], b'\r', b'\n', b'A'];
    let lf_data = [b'@', n[0], n[1], b'\n', b'A'];
    let data: &[u8] = if crlf { &crlf_data } else { &lf_data };
    let line_len = data.len() - 1;
    let mut src = ChunkyLines(chunking(ChunkyBuf::new(data)));
    let mut definition = Definition::default();
    definition.name_mut().reserve(8);
    let len = read_definition(&mut src, &mut definition).unwrap();
    assert_eq!(len, line_len);
    assert_eq!(src.0.pos, line_len);
    let name = definition.name_mut();
    assert!(name.len() == 2, "definition name is not the 2 name bytes of the line");
    assert!(name[0] == n[0] && name[1] == n[1]);
    assert!(definition.description_mut().is_empty());
    std::mem::forget(definition);
}

// @verif prop=C12 id=O12.6/any tier=off off_reason="does not fit: >9 GB with a solver-placed split (symbolic window length into Vec::extend and the description path); the concrete-split instances O12.6/1..5 cover every split of this line" unwind=8 stubs="memchr::memchr3->first-occurrence loop (cfg(kani) source shim, documented contract)" bound="FASTQ definition line '@' n0 n1 CR LF split in two at ANY offset" fns="fastq::io::reader::record::definition::read_definition,read_u8"
#[kani::proof]
#[kani::unwind(8)]
fn c12_fastq_definition_crlf_any_windows() {
    definition_case(1, true);
}

macro_rules! split_instance {
    ($name:ident, $crlf:expr, $k:expr) => {
        #[kani::proof]
        #[kani::unwind(8)]
        fn $name() {
            definition_case_with($crlf, |b| b.split_at($k));
        }
    };
}

// @verif prop=C12 id=O12.6/4 tier=quick harness=c12_fastq_definition_split_between_cr_and_lf unwind=8 timeout=900 stubs="memchr::memchr3->first-occurrence loop (cfg(kani) source shim); ChunkyLines::read_until = plain loop with the std contract" bound="FASTQ definition line '@' n0 n1 CR LF followed by the sequence (2 symbolic name bytes, no description): first fill_buf window = the 4 bytes up to and including CR, second = the rest (split between CR and LF; concrete split, R13): name == n0 n1 (no terminator byte), description empty, exactly the line consumed" fns="fastq::io::reader::record::definition::read_definition,read_u8,read_line"
split_instance!(c12_fastq_definition_split_between_cr_and_lf, true, 4);
// @verif prop=C12 id=O12.6/3 tier=thorough harness=c12_fastq_definition_split_before_cr unwind=8 stubs="memchr::memchr3->first-occurrence loop (cfg(kani) source shim); ChunkyLines::read_until = plain loop with the std contract" bound="as O12.6/4, split after the name (before CR)" fns="fastq::io::reader::record::definition::read_definition,read_u8,read_line"
split_instance!(c12_fastq_definition_split_before_cr, true, 3);
// @verif prop=C12 id=O12.6/1 tier=thorough harness=c12_fastq_definition_split_after_prefix unwind=8 stubs="memchr::memchr3->first-occurrence loop (cfg(kani) source shim); ChunkyLines::read_until = plain loop with the std contract" bound="as O12.6/4, split after '@'" fns="fastq::io::reader::record::definition::read_definition,read_u8,read_line"
split_instance!(c12_fastq_definition_split_after_prefix, true, 1);
// @verif prop=C12 id=O12.6/2 tier=thorough harness=c12_fastq_definition_split_inside_name unwind=8 stubs="memchr::memchr3->first-occurrence loop (cfg(kani) source shim); ChunkyLines::read_until = plain loop with the std contract" bound="as O12.6/4, split inside the name" fns="fastq::io::reader::record::definition::read_definition,read_u8,read_line"
split_instance!(c12_fastq_definition_split_inside_name, true, 2);
// @verif prop=C12 id=O12.6/5 tier=thorough harness=c12_fastq_definition_split_after_lf unwind=8 stubs="memchr::memchr3->first-occurrence loop (cfg(kani) source shim); ChunkyLines::read_until = plain loop with the std contract" bound="as O12.6/4, split after LF (line boundary)" fns="fastq::io::reader::record::definition::read_definition,read_u8,read_line"
split_instance!(c12_fastq_definition_split_after_lf, true, 5);
// @verif prop=C12 id=O12.6/lf3 tier=thorough harness=c12_fastq_definition_lf_split_before_lf unwind=8 stubs="memchr::memchr3->first-occurrence loop (cfg(kani) source shim); ChunkyLines::read_until = plain loop with the std contract" bound="line '@' n0 n1 LF, split before LF" fns="fastq::io::reader::record::definition::read_definition,read_u8,read_line"
split_instance!(c12_fastq_definition_lf_split_before_lf, false, 3);
