// Kani harnesses mounted inside noodles-vcf/src/io/reader/header.rs (VCF header line adaptor).
#![allow(unused_imports, dead_code)]

#[path = "/verif/harness/common.rs"]
mod common;

use std::io::{self, BufRead, Read};

use self::common::*;
use super::*;

/// Model of `memchr::memchr` used under cfg(kani) by Reader::fill_buf (hook "memchr shim"): first
/// occurrence or None, as a plain loop; DESIGN R18.  Trusted base.
pub(crate) fn memchr_model(needle: u8, haystack: &[u8]) -> Option<usize> {
    let mut i = 0;
    while i < haystack.len() {
        if haystack[i] == needle {
            return Some(i);
        }
        i += 1;
    }
    None
}

/// drains the header adaptor through its Read impl into a fixed array (read_header does the same through
/// read_until into a Vec, which is std code with symbolic-length Vec growth)
fn drain<R: BufRead>(src: &mut R, out: &mut [u8; 8]) -> usize {
    let mut r = Reader::new(src);
    let mut total = 0;
    let mut k = 0;
    while k < 6 {
        let n = r.read(&mut out[total..]).unwrap();
        if n == 0 {
            return total;
        }
        total += n;
        k += 1;
    }
    usize::MAX
}

fn header_case(budget: u8) {
    let b: [u8; 3] = kani::any();
    kani::assume(b[0] != b'\n' && b[1] != b'\n' && b[2] != b'#');
    // two header lines, then the first byte of the first record line
    let data = [b'#', b[0], b'\n', b'#', b[1], b'\n', b[2]];
    let mut src = ChunkyBuf::new(&data).with_partial_budget(budget);
    let mut out = [0u8; 8];
    let n = drain(&mut src, &mut out);
    assert_eq!(n, 6, "the header adaptor does not stop exactly after the last header line");
    let i: usize = kani::any();
    kani::assume(i < 6);
    assert_eq!(out[i], data[i]);
    assert_eq!(src.pos, 6);
}

// @verif prop=C12 id=O12.10a tier=quick unwind=9 stubs="memchr::memchr->first-occurrence loop (cfg(kani) source shim, documented contract)" bound="raw VCF header '#' b0 LF '#' b1 LF followed by a record byte (3 symbolic bytes: includes '##' lines, CR LF endings, a record starting with any non-'#' byte), delivered split in two fill_buf windows at ANY offset, drained through the header Reader's Read impl: exactly the 6 header bytes come out, unchanged, and the record byte is left in the source" fns="vcf::io::reader::header::Reader::read,Reader::fill_buf,Reader::consume"
#[kani::proof]
#[kani::unwind(9)]
fn c12_vcf_header_adaptor_any_split() {
    header_case(1);
}

// @verif prop=C12 id=O12.10b tier=thorough unwind=9 stubs="memchr::memchr->first-occurrence loop (cfg(kani) source shim, documented contract)" bound="as O12.10a with at most TWO solver-placed partial windows (every split in up to three pieces)" fns="vcf::io::reader::header::Reader::read,Reader::fill_buf,Reader::consume"
#[kani::proof]
#[kani::unwind(9)]
fn c12_vcf_header_adaptor_three_windows() {
    header_case(2);
}

// @verif prop=C12,C13 id=O12.10c tier=quick unwind=9 stubs="memchr::memchr->first-occurrence loop (cfg(kani) source shim, documented contract)" bound="header-only input '#' b0 LF '#' b1 b2 then EOF (last header line without terminator: a file cut inside the header), split in two at ANY offset: all 6 bytes come out, then end of header" fns="vcf::io::reader::header::Reader::read,Reader::fill_buf,Reader::consume"
#[kani::proof]
#[kani::unwind(9)]
fn c12_vcf_header_adaptor_unterminated_last_line() {
    let b: [u8; 3] = kani::any();
    kani::assume(b[0] != b'\n' && b[1] != b'\n' && b[2] != b'\n');
    let data = [b'#', b[0], b'\n', b'#', b[1], b[2]];
    let mut src = ChunkyBuf::new(&data).with_partial_budget(1);
    let mut out = [0u8; 8];
    let n = drain(&mut src, &mut out);
    assert_eq!(n, 6);
    let i: usize = kani::any();
    kani::assume(i < 6);
    assert_eq!(out[i], data[i]);
    assert_eq!(src.pos, 6);
}

// @verif prop=C12 id=canary/vcf-header tier=quick expect=fail unwind=9 bound="deliberately wrong: claims the adaptor also passes the first record byte through" fns="vcf::io::reader::header::Reader::read"
#[kani::proof]
#[kani::unwind(9)]
fn c12_canary_vcf_header_adaptor_passes_record_byte() {
    let b: [u8; 3] = kani::any();
    kani::assume(b[0] != b'\n' && b[1] != b'\n' && b[2] != b'#');
    let data = [b'#', b[0], b'\n', b'#', b[1], b'\n', b[2]];
    let mut src = ChunkyBuf::new(&data).with_partial_budget(1);
    let mut out = [0u8; 8];
    let n = drain(&mut src, &mut out);
    assert_eq!(n, 7);
}
