// Kani harness mounted inside noodles-vcf/src/io/reader/record.rs (lazy VCF record reader).
#![allow(unused_imports, dead_code)]

use std::io::{self, BufRead};

use super::*;

/// cpuid inline asm is not executable by Kani: report "no optional CPU features", so that memchr's
/// runtime dispatch takes its (real) SSE2 implementation
pub fn fake_cpuid(_leaf: u32, _sub_leaf: u32) -> std::arch::x86_64::CpuidResult {
    std::arch::x86_64::CpuidResult { eax: 0, ebx: 0, ecx: 0, edx: 0 }
}

// @verif prop=C15 id=O15.vcf.lazy tier=off off_reason="does not fit: >1200 s (String pushes, from_utf8 and memchr2 under symbolic bytes)" unwind=22 timeout=1200 stubs="std::arch::x86_64::__cpuid_count->no optional CPU features (memchr2 runs its real SSE2 path)" bound="VCF line = fixed 'a TAB 1 TAB . TAB A TAB . TAB . TAB' + 5 ARBITRARY ASCII bytes (FILTER/INFO/terminators incl. TAB, CR, LF) + LF, read from a slice: if read_record returns Ok, then filters(), info(), samples() and reference_sequence_name() do not panic" fns="vcf::io::reader::record::read_record,read_field,read_required_field,Fields::filters,Fields::info,Fields::samples,Bounds::*_range"
#[kani::proof]
#[kani::unwind(22)]
#[kani::stub(std::arch::x86_64::__cpuid_count, fake_cpuid)]
fn c15_vcf_lazy_record_accessors_after_ok_read() {
    let tail: [u8; 5] = kani::any();
    kani::assume(tail[0] < 0x80 && tail[1] < 0x80 && tail[2] < 0x80 && tail[3] < 0x80 && tail[4] < 0x80);
    let line: [u8; 18] = [
        b'a', b'\t', b'1', b'\t', b'.', b'\t', b'A', b'\t', b'.', b'\t', b'.', b'\t', tail[0], tail[1], tail[2], tail[3], tail[4], b'\n',
    ];
    let mut src: &[u8] = &line[..];
    let mut record = Record::default();
    let r = read_record(&mut src, &mut record);
    if r.is_ok() {
        let _ = record.reference_sequence_name().len();
        let f = record.filters();
        let _ = f.as_ref().len();
        let i = record.info();
        let _ = i.as_ref().len();
        let s = record.samples();
        let _ = s.as_ref().len();
        kani::cover!(true);
    }
    std::mem::forget(r);
    std::mem::forget(record);
}
