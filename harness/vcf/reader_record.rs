// Kani harness mounted inside noodles-vcf/src/io/reader/record.rs (lazy VCF record reader).
#![allow(unused_imports, dead_code)]

#[path = "/verif/harness/common.rs"]
mod common;

use std::io::{self, BufRead};

use self::common::*;
use super::*;

/// Model of `memchr::memchr2` used under cfg(kani) by read_field (hook "memchr shim"): index of the FIRST
/// byte equal to one of the two needles, None if absent, as a plain loop; DESIGN R18.  Trusted base.
pub(crate) fn memchr2_model(n1: u8, n2: u8, haystack: &[u8]) -> Option<usize> {
    let mut i = 0;
    while i < haystack.len() {
        if haystack[i] == n1 || haystack[i] == n2 {
            return Some(i);
        }
        i += 1;
    }
    None
}

/// cpuid inline asm is not executable by Kani: report "no optional CPU features", so that memchr's
/// runtime dispatch takes its (real) SSE2 implementation
pub fn fake_cpuid(_leaf: u32, _sub_leaf: u32) -> std::arch::x86_64::CpuidResult {
    std::arch::x86_64::CpuidResult { eax: 0, ebx: 0, ecx: 0, edx: 0 }
}

// @verif prop=C15 id=O15.vcf.lazy tier=off off_reason="does not fit: >1200 s (String pushes, from_utf8 and memchr2 under symbolic bytes)" unwind=22 timeout=1200 stubs="memchr::memchr2->first-occurrence loop (cfg(kani) source shim)" bound="VCF line = fixed 'a TAB 1 TAB . TAB A TAB . TAB . TAB' + 5 ARBITRARY ASCII bytes (FILTER/INFO/terminators incl. TAB, CR, LF) + LF, read from a slice: if read_record returns Ok, then filters(), info(), samples() and reference_sequence_name() do not panic" fns="vcf::io::reader::record::read_record,read_field,read_required_field,Fields::filters,Fields::info,Fields::samples,Bounds::*_range"
#[kani::proof]
#[kani::unwind(22)]
fn c15_vcf_lazy_record_accessors_after_ok_read() {
    let tail: [u8; 5] = kani::any();
    kani::assume(tail[0] < 0x80 && tail[1] < 0x80 && tail[2] < 0x80 && tail[3] < 0x80 && tail[4] < 0x80);
    let line: [u8; 18] = [
        b'a', b'\t', b'1', b'\t', b'.', b'\t', b'A', b'\t', b'.', b'\t', b'.', b'\t', tail[0], tail[1], tail[2], tail[3], tail[4], b'\n',
    ];
    let mut src: &[u8] = &line[..];
    let mut record = Record::default();
    let r = read_record(&mut src, &mut record);
    if r.is_ok() {
        let _ = record.reference_sequence_name().len();
        let f = record.filters();
        let _ = f.as_ref().len();
        let i = record.info();
        let _ = i.as_ref().len();
        let s = record.samples();
        let _ = s.as_ref().len();
        kani::cover!(true);
    }
    std::mem::forget(r);
    std::mem::forget(record);
}

fn read_field_step<const L: usize>() {
    // arbitrary pre-state: what earlier fields of the line left in the line buffer (2 arbitrary ASCII bytes)
    let pre: [u8; 2] = kani::any();
    kani::assume(pre[0] < 0x80 && pre[1] < 0x80);
    let mut dst = String::with_capacity(8);
    dst.push(pre[0] as char);
    dst.push(pre[1] as char);
    let data: [u8; L] = kani::any();
    let mut j = 0;
    while j < L {
        kani::assume(utf8_model_byte(data[j])); // precondition of the from_utf8 model (a real loop: assumptions are not index-generic)
        j += 1;
    }
    let mut src = ChunkyBuf::new(&data).with_partial_budget(0);
    match read_field(&mut src, &mut dst) {
        Ok((n, is_eol)) => {
            assert!(n <= L);
            // one step of the bounds invariant: a field never takes bytes away from the fields before it,
            // so every end offset recorded so far stays <= dst.len()
            assert!(dst.len() >= 2, "read_field removed a byte of a previous field");
            assert!(dst.as_bytes()[0] == pre[0] && dst.as_bytes()[1] == pre[1]);
            kani::cover!(is_eol && dst.len() == 2 && n == 1);
        }
        Err(e) => std::mem::forget(e),
    }
    std::mem::forget(dst);
}

// @verif prop=C15 id=O15.vcf.field-step/2 tier=off off_reason="fits (passes in ~290 s; it is the run that found F23) but peaks at 13.5 GB RSS, too close to the 14 GB memory guard to be a dependable check; the 1-byte instance O15.vcf.field-step/1 decides the same step incl. the F23 case" unwind=6 timeout=1500 stubs="memchr::memchr2->first-occurrence loop (cfg(kani) source shim, documented contract); std::str::from_utf8->validator model exact on ASCII + 2-byte sequences (precondition asserted)" bound="ONE read_field step of the lazy VCF record reader from an ARBITRARY line-buffer pre-state (2 arbitrary ASCII bytes left by earlier fields) over an ARBITRARY 2-byte input in one fill_buf window (tab, CR, LF, non-UTF-8, anything; chunked delivery of symbolic bytes through str::from_utf8 does not fit: >14 GB): the bytes of earlier fields are still there afterwards -- the inductive step of 'field bounds stay inside the line buffer', which every vcf::Record accessor slices with" fns="vcf::io::reader::record::read_field"
#[kani::proof]
#[kani::unwind(6)]
#[kani::stub(std::str::from_utf8, from_utf8_model)]
fn c15_vcf_read_field_keeps_previous_fields_2() {
    read_field_step::<2>();
}

// @verif prop=C12 id=O12.8 tier=quick unwind=6 stubs="memchr::memchr2->first-occurrence loop (cfg(kani) source shim, documented contract); std::str::from_utf8->validator model exact on ASCII + 2-byte sequences (precondition asserted)" bound="field bytes b0 b1 TAB where b0 b1 is ANY 2-byte UTF-8 character (b0 in C2..=DF, b1 in 80..=BF; VCF 4.3 text is UTF-8), delivered in two fill_buf windows split between the two bytes of the character (concrete split, R13; a solver-placed split runs out of memory in playback): same result as in one window -- Ok((3, false)) and the field text is that character" fns="vcf::io::reader::record::read_field"
#[kani::proof]
#[kani::unwind(6)]
#[kani::stub(std::str::from_utf8, from_utf8_model)]
fn c12_vcf_read_field_utf8_character_split() {
    let b: [u8; 2] = kani::any();
    kani::assume(b[0] >= 0xC2 && b[0] <= 0xDF && b[1] >= 0x80 && b[1] <= 0xBF);
    let data = [b[0], b[1], b'\t'];
    let mut src = ChunkyBuf::new(&data).split_at(1);
    let mut dst = String::with_capacity(8);
    match read_field(&mut src, &mut dst) {
        Ok((n, is_eol)) => {
            assert!(n == 3 && !is_eol);
            assert!(dst.len() == 2 && dst.as_bytes()[0] == b[0] && dst.as_bytes()[1] == b[1]);
        }
        Err(e) => {
            assert!(false, "a multi-byte character split across two fill_buf windows is rejected");
            std::mem::forget(e);
        }
    }
    std::mem::forget(dst);
}

// @verif prop=C15 id=O15.vcf.field-step/1 tier=quick unwind=5 timeout=900 stubs="memchr::memchr2->first-occurrence loop (cfg(kani) source shim, documented contract); std::str::from_utf8->validator model exact on ASCII + 2-byte sequences (precondition asserted)" bound="as O15.vcf.field-step/2 with an ARBITRARY 1-byte input (enough for the empty-last-field case: a lone LF after a field that ends in CR)" fns="vcf::io::reader::record::read_field"
#[kani::proof]
#[kani::unwind(5)]
#[kani::stub(std::str::from_utf8, from_utf8_model)]
fn c15_vcf_read_field_keeps_previous_fields_1() {
    read_field_step::<1>();
}

fn read_line_step<const L: usize>() {
    let pre: [u8; 2] = kani::any();
    kani::assume(pre[0] < 0x80 && pre[1] < 0x80);
    let mut dst = String::with_capacity(8);
    dst.push(pre[0] as char);
    dst.push(pre[1] as char);
    let data: [u8; L] = kani::any();
    let mut j = 0;
    while j < L {
        kani::assume(utf8_model_byte(data[j]));
        j += 1;
    }
    let mut src = ChunkyLines(ChunkyBuf::new(&data).with_partial_budget(0));
    match read_line(&mut src, &mut dst) {
        Ok(n) => {
            assert!(n <= L);
            assert!(dst.len() >= 2, "read_line removed a byte of a previous field");
            assert!(dst.as_bytes()[0] == pre[0] && dst.as_bytes()[1] == pre[1]);
            kani::cover!(n == 1 && dst.len() == 2);
        }
        Err(e) => std::mem::forget(e),
    }
    std::mem::forget(dst);
}

// @verif prop=C15 id=O15.vcf.line-step/1 tier=quick unwind=5 timeout=900 stubs="ChunkyLines::read_until = plain loop with the std contract; std::str::from_utf8->validator model exact on ASCII + 2-byte sequences (precondition asserted)" bound="the LAST step of vcf read_record -- read_line appending the samples to the line buffer -- from an ARBITRARY pre-state (2 arbitrary ASCII bytes left by the mandatory fields) over an ARBITRARY 1-byte rest of line: the bytes of the earlier fields are still there afterwards" fns="vcf::io::reader::read_line"
#[kani::proof]
#[kani::unwind(5)]
#[kani::stub(std::str::from_utf8, from_utf8_model)]
fn c15_vcf_read_line_keeps_previous_fields_1() {
    read_line_step::<1>();
}
