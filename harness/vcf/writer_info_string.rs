// Kani harnesses mounted inside noodles-vcf/src/io/writer/record/info/field/value/string.rs (INFO string
// writer); the reader side is crate::io::reader::record_buf::value::percent_decode, which every
// lazy/eager INFO and FORMAT string parser calls.
#![allow(unused_imports, dead_code)]

#[path = "/verif/harness/common.rs"]
mod common;

use self::common::*;
use super::*;
use crate::io::reader::record_buf::value::percent_decode;

fn reserved(b: u8) -> bool {
    b < 0x20 || b == 0x7f || b == b';' || b == b'=' || b == b',' || b == b'\r' || b == b'\n' || b == b'\t'
}

fn hex(b: u8) -> bool {
    (b >= b'0' && b <= b'9') || (b >= b'A' && b <= b'F')
}

/// R10: the decoder runs on a stack copy of the written text with a CONCRETE length
fn reads_back<const M: usize>(text: &[u8], v: &[u8]) {
    let mut a = [0u8; M];
    let mut k = 0;
    while k < M {
        a[k] = text[k];
        k += 1;
    }
    // the written text is ASCII by (1): a str view of it is sound
    let t = unsafe { std::str::from_utf8_unchecked(&a[..]) };
    match percent_decode(t) {
        Ok(s) => {
            assert_eq!(s.len(), v.len(), "INFO/FORMAT string does not read back with its length");
            let j: usize = kani::any();
            kani::assume(j < v.len());
            assert_eq!(s.as_bytes()[j], v[j]);
            std::mem::forget(s);
        }
        Err(_) => assert!(false, "written string value is rejected by the reader"),
    }
}

fn string_case<const L: usize>() {
    let v: [u8; L] = kani::any();
    let mut k = 0;
    while k < L {
        kani::assume(v[k] < 0x80); // ASCII: a valid &str (multi-byte characters pass through both layers unchanged)
        k += 1;
    }
    let s = unsafe { std::str::from_utf8_unchecked(&v[..]) };
    let mut buf = [0u8; 8];
    let mut sink: &mut [u8] = &mut buf[..];
    write_string(&mut sink, s).unwrap();
    let n = 8 - sink.len();
    assert!(n >= L && n <= 3 * L);
    // (1) nothing reserved survives; '%' only starts an escape; a lone '.' (the MISSING token) is escaped
    let i: usize = kani::any();
    kani::assume(i < n);
    assert!(!reserved(buf[i]), "a VCF reserved character is written unescaped");
    if buf[i] == b'%' {
        assert!(i + 2 < n && hex(buf[i + 1]) && hex(buf[i + 2]));
    }
    assert!(!(n == 1 && buf[0] == b'.'), "a string equal to '.' is written as the MISSING token");
    // (2) the reader's percent_decode returns the original string
    match n {
        1 => reads_back::<1>(&buf, &v),
        2 => reads_back::<2>(&buf, &v),
        3 => reads_back::<3>(&buf, &v),
        4 => reads_back::<4>(&buf, &v),
        6 => reads_back::<6>(&buf, &v),
        _ => assert!(false, "written length is not a sum of 1s and 3s"),
    }
}

// @verif prop=C09 id=O9.1/1 tier=off off_reason="does not fit: >14 GB; the READER half (percent_decode_str(..).decode_utf8(): Cow + String::from_utf8 of a heap Vec) exhausts memory already for 3 concrete-length ASCII bytes (probe c09_probe_reader_only_3), the writer half alone takes 1.7 s" unwind=10 timeout=900 stubs="std::str::from_utf8->validator model exact on ASCII + 2-byte sequences (the text handed to the reader is ASCII)" bound="EVERY 1-character ASCII INFO string value (128 values, incl. ';' '=' '%' ',' CR LF TAB, controls and the lone '.'): write_string output has no reserved character, '%' only as %XX, a lone '.' is written as %2E; percent_decode (the reader side of every INFO/FORMAT string) returns the original string" fns="vcf::io::writer::record::info::field::value::string::write_string,percent_encode,vcf::io::reader::record_buf::value::percent_decode,percent_encoding::{utf8_percent_encode,percent_encode_byte,percent_decode_str}"
#[kani::proof]
#[kani::unwind(10)]
#[kani::stub(std::str::from_utf8, from_utf8_model)]
fn c09_info_string_percent_layer_1() {
    string_case::<1>();
}

// @verif prop=C09 id=O9.1/2 tier=off off_reason="does not fit (as O9.1/1)" unwind=10 timeout=1500 stubs="std::str::from_utf8->validator model exact on ASCII + 2-byte sequences" bound="as O9.1/1 for EVERY 2-character ASCII string (incl. '%' followed by a hex digit, '..', '.;')" fns="write_string,percent_encode,percent_decode"
#[kani::proof]
#[kani::unwind(10)]
#[kani::stub(std::str::from_utf8, from_utf8_model)]
fn c09_info_string_percent_layer_2() {
    string_case::<2>();
}

// @verif prop=C09 id=O9.1/probe-w tier=off off_reason="fits (1.7 s) but is only the writer half of an inverse law; C09 is not claimed" unwind=10 bound="writer half only: every 1-character ASCII string is written reserved-free, 1 or 3 bytes" fns="write_string"
#[kani::proof]
#[kani::unwind(10)]
fn c09_probe_writer_only_1() {
    let v: [u8; 1] = kani::any();
    kani::assume(v[0] < 0x80);
    let s = unsafe { std::str::from_utf8_unchecked(&v[..]) };
    let mut buf = [0u8; 8];
    let mut sink: &mut [u8] = &mut buf[..];
    write_string(&mut sink, s).unwrap();
    let n = 8 - sink.len();
    assert!(n == 1 || n == 3);
    let i: usize = kani::any();
    kani::assume(i < n);
    assert!(!reserved(buf[i]));
}

// @verif prop=C09 id=O9.1/probe-r tier=off off_reason="does not fit: >14 GB" unwind=10 bound="reader half only: percent_decode over 3 ASCII bytes" fns="percent_decode"
#[kani::proof]
#[kani::unwind(10)]
#[kani::stub(std::str::from_utf8, from_utf8_model)]
fn c09_probe_reader_only_3() {
    let a: [u8; 3] = kani::any();
    kani::assume(a[0] < 0x80 && a[1] < 0x80 && a[2] < 0x80);
    let t = unsafe { std::str::from_utf8_unchecked(&a[..]) };
    match percent_decode(t) {
        Ok(s) => {
            assert!(s.len() == 3 || s.len() == 1);
            std::mem::forget(s);
        }
        Err(_) => {}
    }
}
