// Kani harness mounted inside noodles-sam/src/io/writer/record/quality_scores.rs.
#![allow(unused_imports, dead_code)]

use std::io::{self, Write};

use super::*;
use crate::alignment::record_buf::QualityScores as QualityScoresBuf;

pub fn stub_fmt_format(_args: std::fmt::Arguments<'_>) -> String {
    String::new()
}

// @verif prop=C06 id=O6.1/write tier=quick unwind=5 stubs="alloc::fmt::format->empty String" bound="2 quality scores, ALL byte values: written iff every score <= 93 (SAM spec: Phred+33 must be printable '!'..='~'), each written byte == score+33; missing scores -> '*'; length mismatch rejected" fns="sam::io::writer::record::quality_scores::write_quality_scores,is_valid_score"
#[kani::proof]
#[kani::unwind(5)]
#[kani::stub(std::fmt::format, stub_fmt_format)]
fn c06_quality_scores_text_writer() {
    let q: [u8; 2] = kani::any();
    let scores = QualityScoresBuf::from(vec![q[0], q[1]]);
    let mut buf = [0u8; 8];
    let mut sink: &mut [u8] = &mut buf[..];
    let r = write_quality_scores(&mut sink, 2, &scores);
    let written = 8 - sink.len();
    let valid = q[0] <= 93 && q[1] <= 93;
    assert_eq!(r.is_ok(), valid);
    if valid {
        assert!(written == 2 && buf[0] == q[0] + 33 && buf[1] == q[1] + 33);
        assert!(buf[0] >= b'!' && buf[0] <= b'~');
    }
    std::mem::forget(r);
    // missing
    let empty = QualityScoresBuf::default();
    let mut b2 = [0u8; 4];
    let mut s2: &mut [u8] = &mut b2[..];
    write_quality_scores(&mut s2, 2, &empty).unwrap();
    assert!(4 - s2.len() == 1 && b2[0] == b'*');
    // length mismatch
    let mut b3 = [0u8; 4];
    let mut s3: &mut [u8] = &mut b3[..];
    let r3 = write_quality_scores(&mut s3, 3, &scores);
    assert!(r3.is_err());
    std::mem::forget(r3);
    kani::cover!(valid && q[0] == 93);
    std::mem::forget(scores);
    std::mem::forget(empty);
}
