// Kani harness mounted inside noodles-sam/src/io/writer/record/cigar/op/kind.rs.
#![allow(unused_imports, dead_code)]

use std::io::{self, Write};

use super::*;

const SPEC: [u8; 9] = *b"MIDNSHP=X";

// @verif prop=C06 id=O6.2/write-kind tier=quick unwind=4 bound="all nine CIGAR operation kinds: the SAM text writer emits exactly the character MIDNSHP=X[code] (so reader(writer(kind)) == kind with O6.2/read-kind)" fns="sam::io::writer::record::cigar::op::kind::write_kind"
#[kani::proof]
#[kani::unwind(4)]
fn c06_cigar_kind_text_writer_table() {
    let i: usize = kani::any();
    kani::assume(i < 9);
    let kind = match i {
        0 => Kind::Match,
        1 => Kind::Insertion,
        2 => Kind::Deletion,
        3 => Kind::Skip,
        4 => Kind::SoftClip,
        5 => Kind::HardClip,
        6 => Kind::Pad,
        7 => Kind::SequenceMatch,
        _ => Kind::SequenceMismatch,
    };
    let mut buf = [0u8; 4];
    let mut sink: &mut [u8] = &mut buf[..];
    write_kind(&mut sink, kind).unwrap();
    assert_eq!(4 - sink.len(), 1);
    assert_eq!(buf[0], SPEC[i]);
}
