// Kani harnesses mounted inside noodles-sam/src/io/reader/record_buf/data/field/value.rs
// (text -> RecordBuf aux value).
#![allow(unused_imports, dead_code)]

use super::*;

fn int_of(v: &Value) -> Option<i64> {
    v.as_int()
}

// @verif prop=C06,C05 id=O6.5a tier=quick unwind=2 bound="ALL i64 values n: the aux integer a SAM field TAG:i:n becomes (Value::try_from(i64), the second half of parse_int) is Ok iff i32::MIN <= n <= u32::MAX -- exactly what the SAM writer can emit and BAM can hold -- it reads back as n (as_int) and has the smallest type that holds n (what the BAM encoder writes)" fns="<record_buf::data::field::Value as TryFrom<i64>>::try_from,Value::as_int,<Value as From<u32>>::from"
#[kani::proof]
#[kani::unwind(2)]
fn c06_aux_integer_value_from_any_i64() {
    let n: i64 = kani::any();
    match Value::try_from(n) {
        Ok(v) => {
            assert!(n >= i32::MIN as i64 && n <= u32::MAX as i64);
            assert_eq!(int_of(&v), Some(n));
            let smallest = match v {
                Value::Int8(_) => n < 0 && n >= i8::MIN as i64,
                Value::UInt8(_) => n >= 0 && n <= u8::MAX as i64,
                Value::Int16(_) => n < i8::MIN as i64 && n >= i16::MIN as i64,
                Value::UInt16(_) => n > u8::MAX as i64 && n <= u16::MAX as i64,
                Value::Int32(_) => n < i16::MIN as i64,
                Value::UInt32(_) => n > u16::MAX as i64,
                _ => false,
            };
            assert!(smallest, "aux integer is not stored in the smallest type that holds it");
        }
        Err(e) => {
            assert!(n < i32::MIN as i64 || n > u32::MAX as i64);
            assert!(e == ParseError::InvalidIntegerValue);
        }
    }
}

// @verif prop=C06 id=O6.5b tier=off off_reason="does not fit: >900 s (lexical-core i64 parser over 10 symbolic digits); seeded change C06-B lives here and is not caught" unwind=12 timeout=900 bound="text of exactly 10 ASCII digits d0..d9 (symbolic) whose value is in [2^31, 2^32) -- the integers above i32::MAX that the SAM writer emits for UInt32 aux values: parse_int accepts it and the value reads back equal" fns="sam::io::reader::record_buf::data::field::value::parse_int,lexical_core::parse::<i64>,Value::try_from"
#[kani::proof]
#[kani::unwind(12)]
fn c06_aux_integer_text_above_i32_max_is_accepted() {
    let d: [u8; 10] = kani::any();
    let mut n: u64 = 0;
    let mut i = 0;
    while i < 10 {
        kani::assume(d[i] >= b'0' && d[i] <= b'9');
        n = n * 10 + (d[i] - b'0') as u64;
        i += 1;
    }
    kani::assume(n >= (1 << 31) && n < (1 << 32));
    match parse_int(&d[..]) {
        Ok(v) => assert_eq!(int_of(&v), Some(n as i64)),
        Err(_) => assert!(false, "an aux integer in [2^31, 2^32) written by the SAM writer is rejected by the reader"),
    }
}
