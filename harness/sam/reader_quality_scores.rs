// Kani harness mounted inside noodles-sam/src/io/reader/record_buf/quality_scores.rs.
#![allow(unused_imports, dead_code)]

use super::*;

// @verif prop=C06 id=O6.1/read tier=quick unwind=5 bound="2 text bytes, ALL byte values: accepted iff both are printable '!'..='~' (exactly the bytes the writer can emit, see O6.1/write), decoded score == byte-33 (so parse(write(q)) == q for every writable q)" fns="sam::io::reader::record_buf::quality_scores::parse_quality_scores,is_valid"
#[kani::proof]
#[kani::unwind(5)]
fn c06_quality_scores_text_reader() {
    let t: [u8; 2] = kani::any();
    let mut qs = QualityScores::default();
    let r = parse_quality_scores(&t, 2, &mut qs);
    let valid = t[0] >= b'!' && t[0] <= b'~' && t[1] >= b'!' && t[1] <= b'~';
    assert_eq!(r.is_ok(), valid);
    if valid {
        let got: &[u8] = qs.as_ref();
        assert!(got.len() == 2 && got[0] == t[0] - 33 && got[1] == t[1] - 33);
        assert!(got[0] <= 93);
    }
    kani::cover!(valid && t[0] == b'~');
    std::mem::forget(qs);
}
