// Kani harnesses mounted at the crate root of noodles-sam.
#![allow(unused_imports, dead_code)]

use std::io;

use crate::alignment::record::{
    Cigar,
    cigar::{Op, op::Kind},
};

struct H3 {
    ops: [Op; 3],
    n: usize,
}

impl Cigar for H3 {
    fn is_empty(&self) -> bool {
        self.n == 0
    }

    fn len(&self) -> usize {
        self.n
    }

    fn iter(&self) -> Box<dyn Iterator<Item = io::Result<Op>> + '_> {
        Box::new(self.ops[..self.n].iter().map(|op| Ok(*op)))
    }
}

fn any_kind() -> (Kind, u8) {
    let k: u8 = kani::any();
    kani::assume(k < 9);
    let kind = match k {
        0 => Kind::Match,
        1 => Kind::Insertion,
        2 => Kind::Deletion,
        3 => Kind::Skip,
        4 => Kind::SoftClip,
        5 => Kind::HardClip,
        6 => Kind::Pad,
        7 => Kind::SequenceMatch,
        _ => Kind::SequenceMismatch,
    };
    (kind, k)
}

/// SAM spec 1.4.6 table: which operations consume the reference / the query
fn spec_consumes_reference(k: u8) -> bool {
    matches!(k, 0 | 2 | 3 | 7 | 8) // M D N = X
}

fn spec_consumes_read(k: u8) -> bool {
    matches!(k, 0 | 1 | 4 | 7 | 8) // M I S = X
}

// @verif prop=C04,C05 id=O4.7 tier=quick unwind=5 timeout=600 bound="CIGAR of 0..=3 operations, every kind, every length < 2^28 (the BAM limit): alignment_span == sum of the lengths of M/D/N/=/X and read_length == sum over M/I/S/=/X (SAM 1.4.6), i.e. the reference span every index and region filter uses" fns="sam::alignment::record::Cigar::alignment_span,Cigar::read_length,Kind::consumes_reference,Kind::consumes_read"
#[kani::proof]
#[kani::unwind(5)]
fn c04_cigar_reference_span_and_read_length() {
    let (k0, c0) = any_kind();
    let (k1, c1) = any_kind();
    let (k2, c2) = any_kind();
    let (l0, l1, l2): (usize, usize, usize) = kani::any();
    kani::assume(l0 < (1 << 28) && l1 < (1 << 28) && l2 < (1 << 28));
    let n: usize = kani::any();
    kani::assume(n <= 3);
    let cigar = H3 { ops: [Op::new(k0, l0), Op::new(k1, l1), Op::new(k2, l2)], n };
    let codes = [c0, c1, c2];
    let lens = [l0, l1, l2];
    let (mut span, mut read) = (0usize, 0usize);
    let mut i = 0;
    while i < n {
        if spec_consumes_reference(codes[i]) {
            span += lens[i];
        }
        if spec_consumes_read(codes[i]) {
            read += lens[i];
        }
        i += 1;
    }
    assert_eq!(cigar.alignment_span().unwrap(), span);
    assert_eq!(cigar.read_length().unwrap(), read);
    kani::cover!(n == 3 && span > 0 && read > span);
}
