// Kani harnesses mounted inside noodles-sam/src/io/reader/record.rs (lazy SAM record reader).
#![allow(unused_imports, dead_code)]

#[path = "/verif/harness/common.rs"]
mod common;

use std::io::{self, BufRead, Read};

use self::common::*;
use super::*;

/// Model of `memchr::memchr2` used under cfg(kani) by read_field (hook "memchr shim"): index of the FIRST
/// byte equal to one of the two needles, None if absent, as a plain loop; DESIGN R18.  Trusted base.
pub(crate) fn memchr2_model(n1: u8, n2: u8, haystack: &[u8]) -> Option<usize> {
    let mut i = 0;
    while i < haystack.len() {
        if haystack[i] == n1 || haystack[i] == n2 {
            return Some(i);
        }
        i += 1;
    }
    None
}

fn read_field_step<const L: usize>() {
    // arbitrary pre-state: what earlier fields of the line left in the line buffer (2 arbitrary bytes)
    let pre: [u8; 2] = kani::any();
    let mut dst: Vec<u8> = Vec::with_capacity(8);
    dst.push(pre[0]);
    dst.push(pre[1]);
    let data: [u8; L] = kani::any();
    let mut src = ChunkyBuf::new(&data);
    match read_field(&mut src, &mut dst) {
        Ok((n, is_eol)) => {
            assert!(n <= L);
            // one step of the bounds invariant: a field never takes bytes away from the fields before it,
            // so every end offset recorded so far stays <= dst.len()
            assert!(dst.len() >= 2, "read_field removed a byte of a previous field");
            assert!(dst[0] == pre[0] && dst[1] == pre[1]);
            kani::cover!(is_eol && dst.len() == 2 && n == 2);
        }
        Err(e) => std::mem::forget(e),
    }
    std::mem::forget(dst);
}

// @verif prop=C15 id=O15.sam.field-step/2 tier=quick unwind=6 stubs="memchr::memchr2->first-occurrence loop (cfg(kani) source shim, documented contract)" bound="ONE read_field step of the lazy SAM record reader from an ARBITRARY line-buffer pre-state (2 arbitrary bytes left by earlier fields) over an ARBITRARY 2-byte input in solver-chosen fill_buf windows (tab, CR, LF, anything): the bytes of earlier fields are still there afterwards -- the inductive step of 'field bounds stay inside the line buffer', which every sam::Record accessor slices with" fns="sam::io::reader::record::read_field"
#[kani::proof]
#[kani::unwind(6)]
fn c15_sam_read_field_keeps_previous_fields_2() {
    read_field_step::<2>();
}

// @verif prop=C15 id=O15.sam.field-step/3 tier=thorough unwind=7 stubs="memchr::memchr2->first-occurrence loop (cfg(kani) source shim, documented contract)" bound="as O15.sam.field-step/2 with an ARBITRARY 3-byte input" fns="sam::io::reader::record::read_field"
#[kani::proof]
#[kani::unwind(7)]
fn c15_sam_read_field_keeps_previous_fields_3() {
    read_field_step::<3>();
}

// @verif prop=C12 id=O12.9 tier=quick unwind=7 stubs="memchr::memchr2->first-occurrence loop (cfg(kani) source shim, documented contract)" bound="field bytes b0 b1 then TAB or CR LF (symbolic choice; 2 symbolic plain bytes) followed by one more byte, delivered split in two fill_buf windows at ANY offset: the field is b0 b1 (no terminator byte), the reported length is the field plus its delimiter, is_eol iff the line ended" fns="sam::io::reader::record::read_field"
#[kani::proof]
#[kani::unwind(7)]
fn c12_sam_read_field_any_split() {
    let b: [u8; 3] = kani::any();
    kani::assume(b[0] != b'\t' && b[0] != b'\n' && b[0] != b'\r');
    kani::assume(b[1] != b'\t' && b[1] != b'\n' && b[1] != b'\r');
    let eol: bool = kani::any();
    let tab_data = [b[0], b[1], b'\t', b[2]];
    let eol_data = [b[0], b[1], b'\r', b'\n', b[2]];
    let data: &[u8] = if eol { &eol_data } else { &tab_data };
    let mut src = ChunkyBuf::new(data).with_partial_budget(1);
    let mut dst: Vec<u8> = Vec::with_capacity(8);
    let (n, is_eol) = read_field(&mut src, &mut dst).unwrap();
    assert_eq!(is_eol, eol);
    assert_eq!(n, if eol { 4 } else { 3 });
    assert_eq!(src.pos, n);
    assert!(dst.len() == 2 && dst[0] == b[0] && dst[1] == b[1]);
    std::mem::forget(dst);
}

fn read_line_step<const L: usize>() {
    // arbitrary pre-state: the 11 mandatory fields already in the line buffer (their last 2 bytes arbitrary)
    let pre: [u8; 2] = kani::any();
    let mut dst: Vec<u8> = Vec::with_capacity(8);
    dst.push(pre[0]);
    dst.push(pre[1]);
    let data: [u8; L] = kani::any();
    let mut src = ChunkyLines(ChunkyBuf::new(&data).with_partial_budget(0));
    match read_line(&mut src, &mut dst) {
        Ok(n) => {
            assert!(n <= L);
            assert!(dst.len() >= 2, "read_line removed a byte of a previous field");
            assert!(dst[0] == pre[0] && dst[1] == pre[1]);
            kani::cover!(n == 1 && dst.len() == 2);
        }
        Err(e) => std::mem::forget(e),
    }
    std::mem::forget(dst);
}

// @verif prop=C15 id=O15.sam.line-step/2 tier=quick unwind=6 stubs="ChunkyLines::read_until = plain loop with the std contract (std's word-at-a-time memchr + Vec::extend_from_slice do not fit)" bound="the LAST step of sam read_record -- read_line appending the optional fields to the line buffer -- from an ARBITRARY pre-state (2 arbitrary bytes left by the mandatory fields) over an ARBITRARY 2-byte rest of line: the bytes of the earlier fields are still there afterwards (same invariant as O15.sam.field-step)" fns="sam::io::reader::read_line"
#[kani::proof]
#[kani::unwind(6)]
fn c15_sam_read_line_keeps_previous_fields_2() {
    read_line_step::<2>();
}
