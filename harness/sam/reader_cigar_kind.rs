// Kani harness mounted inside noodles-sam/src/io/reader/record_buf/cigar/op/kind.rs.
#![allow(unused_imports, dead_code)]

use super::*;

/// SAM spec 1.4.6: the nine CIGAR operations in BAM code order
const SPEC: [u8; 9] = *b"MIDNSHP=X";

fn spec_index(k: Kind) -> usize {
    match k {
        Kind::Match => 0,
        Kind::Insertion => 1,
        Kind::Deletion => 2,
        Kind::Skip => 3,
        Kind::SoftClip => 4,
        Kind::HardClip => 5,
        Kind::Pad => 6,
        Kind::SequenceMatch => 7,
        Kind::SequenceMismatch => 8,
    }
}

// @verif prop=C06 id=O6.2/read-kind tier=quick unwind=4 bound="EVERY byte value: the SAM text CIGAR kind parser accepts exactly the nine characters MIDNSHP=X and maps each to the operation with that BAM code (the same table the BAM codec uses, C05 O5.2)" fns="sam::io::reader::record_buf::cigar::op::kind::parse_kind"
#[kani::proof]
#[kani::unwind(4)]
fn c06_cigar_kind_text_reader_table() {
    let b: u8 = kani::any();
    let buf = [b];
    let mut src: &[u8] = &buf[..];
    let r = parse_kind(&mut src);
    match r {
        Ok(k) => {
            assert_eq!(SPEC[spec_index(k)], b);
            assert!(src.is_empty());
        }
        Err(_) => {
            let i: usize = kani::any();
            kani::assume(i < 9);
            assert!(SPEC[i] != b);
        }
    }
}
