// Kani harnesses mounted inside noodles-sam/src/io/writer/num.rs (decimal text of integer fields; the
// digits come from lexical-core).
#![allow(unused_imports, dead_code)]

use std::io::{self, Write};

use super::*;

/// independent decimal parser (SAM spec: [-+]?[0-9]+), no leading zeros expected from a writer
fn spec_parse(b: &[u8]) -> Option<i64> {
    if b.is_empty() {
        return None;
    }
    let (neg, digits) = if b[0] == b'-' { (true, &b[1..]) } else { (false, b) };
    if digits.is_empty() || (digits.len() > 1 && digits[0] == b'0') {
        return None;
    }
    let mut v: i64 = 0;
    let mut i = 0;
    while i < digits.len() {
        if digits[i] < b'0' || digits[i] > b'9' {
            return None;
        }
        v = v * 10 + (digits[i] - b'0') as i64;
        i += 1;
    }
    Some(if neg { -v } else { v })
}

// @verif prop=C06 id=O6.3/u8-u16 tier=quick unwind=8 timeout=600 bound="ALL u8 and ALL u16 values (MAPQ, FLAG): the text written is the canonical decimal form (no sign, no leading zeros) of the value" fns="sam::io::writer::num::write_u8,write_u16,lexical_core::write"
#[kani::proof]
#[kani::unwind(8)]
fn c06_decimal_text_of_u8_and_u16() {
    let mut buf = [0u8; 8];
    if kani::any() {
        let n: u8 = kani::any();
        let mut sink: &mut [u8] = &mut buf[..];
        write_u8(&mut sink, n).unwrap();
        let len = 8 - sink.len();
        assert_eq!(spec_parse(&buf[..len]), Some(n as i64));
    } else {
        let n: u16 = kani::any();
        let mut sink: &mut [u8] = &mut buf[..];
        write_u16(&mut sink, n).unwrap();
        let len = 8 - sink.len();
        assert_eq!(spec_parse(&buf[..len]), Some(n as i64));
    }
}

// @verif prop=C06 id=O6.3/i32 tier=off off_reason="does not fit: >900 s (lexical-core i32 digit generation over all 2^32 values)" unwind=13 timeout=900 bound="ALL i32 values (POS, PNEXT, TLEN, integer tags): canonical decimal text ('-' + digits, no leading zeros) of the value" fns="sam::io::writer::num::write_i32,lexical_core::write"
#[kani::proof]
#[kani::unwind(13)]
fn c06_decimal_text_of_i32() {
    let n: i32 = kani::any();
    let mut buf = [0u8; 12];
    let mut sink: &mut [u8] = &mut buf[..];
    write_i32(&mut sink, n).unwrap();
    let len = 12 - sink.len();
    assert_eq!(spec_parse(&buf[..len]), Some(n as i64));
    kani::cover!(len == 11);
}
