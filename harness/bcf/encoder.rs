// Kani harnesses mounted inside noodles-bcf/src/record/codec/encoder.rs (sees the private
// `value` and `string_map` writer modules).
#![allow(unused_imports, dead_code)]

use std::io::{self, Write};

use super::string_map::{write_string_map_index, write_string_map_indices};
use super::value::{write_type, write_value};
use crate::record::codec::{
    Value,
    decoder::read_value,
    value::{Float, Int8, Int16, Int32, Type},
};

pub fn stub_fmt_format(_args: std::fmt::Arguments<'_>) -> String {
    String::new()
}

// ---- BCF2 spec 6.3.3 transcriptions ----------------------------------------------------------

/// parse a typed-value descriptor: (type code, element count, bytes consumed)
fn spec_descriptor(b: &[u8]) -> Option<(u8, usize, usize)> {
    if b.is_empty() {
        return None;
    }
    let ty = b[0] & 0x0f;
    let n = (b[0] >> 4) as usize;
    if n < 15 {
        return Some((ty, n, 1));
    }
    // overflow: the count follows as a typed scalar integer
    if b.len() < 2 {
        return None;
    }
    let (ity, ilen) = (b[1] & 0x0f, b[1] >> 4);
    if ilen != 1 {
        return None;
    }
    match ity {
        1 if b.len() >= 3 => Some((ty, b[2] as i8 as usize, 3)),
        2 if b.len() >= 4 => Some((ty, i16::from_le_bytes([b[2], b[3]]) as usize, 4)),
        3 if b.len() >= 6 => Some((ty, i32::from_le_bytes([b[2], b[3], b[4], b[5]]) as usize, 6)),
        _ => None,
    }
}

// @verif prop=C10 id=O10.1 tier=quick unwind=3 bound="ALL i8 / i16 / i32 raw values: sentinel classification (missing = MIN, end-of-vector = MIN+1, reserved = MIN+2..=MIN+7, value otherwise) and inverse" fns="Int8::from,Int16::from,Int32::from,i8::from(Int8),i16::from(Int16),i32::from(Int32)"
#[kani::proof]
#[kani::unwind(3)]
fn c10_int_sentinels_all_raw_values() {
    let (a, b, c): (i8, i16, i32) = kani::any();
    let va = Int8::from(a);
    match va {
        Int8::Missing => assert_eq!(a, i8::MIN),
        Int8::EndOfVector => assert_eq!(a, i8::MIN + 1),
        Int8::Reserved(_) => assert!(a >= i8::MIN + 2 && a <= i8::MIN + 7),
        Int8::Value(n) => assert!(n == a && a >= i8::MIN + 8),
        _ => unreachable!(),
    }
    assert_eq!(i8::from(va), a);
    let vb = Int16::from(b);
    match vb {
        Int16::Missing => assert_eq!(b, i16::MIN),
        Int16::EndOfVector => assert_eq!(b, i16::MIN + 1),
        Int16::Reserved(_) => assert!(b >= i16::MIN + 2 && b <= i16::MIN + 7),
        Int16::Value(n) => assert!(n == b && b >= i16::MIN + 8),
        _ => unreachable!(),
    }
    assert_eq!(i16::from(vb), b);
    let vc = Int32::from(c);
    match vc {
        Int32::Missing => assert_eq!(c, i32::MIN),
        Int32::EndOfVector => assert_eq!(c, i32::MIN + 1),
        Int32::Reserved(_) => assert!(c >= i32::MIN + 2 && c <= i32::MIN + 7),
        Int32::Value(n) => assert!(n == c && c >= i32::MIN + 8),
        _ => unreachable!(),
    }
    assert_eq!(i32::from(vc), c);
    assert!(Int8::MIN_VALUE == i8::MIN + 8 && Int16::MIN_VALUE == i16::MIN + 8 && Int32::MIN_VALUE == i32::MIN + 8);
}

// @verif prop=C10 id=O10.5 tier=quick unwind=3 bound="ALL 2^32 f32 bit patterns: missing/end-of-vector/reserved codes classified exactly, every other pattern except the canonical NaN preserved bit for bit" fns="Float::from(f32),f32::from(Float)"
#[kani::proof]
#[kani::unwind(3)]
fn c10_float_bit_patterns() {
    let bits: u32 = kani::any();
    let v = Float::from(f32::from_bits(bits));
    let back = f32::from(v.clone()).to_bits();
    match v {
        Float::Missing => assert_eq!(bits, 0x7f80_0001),
        Float::EndOfVector => assert_eq!(bits, 0x7f80_0002),
        Float::Reserved(_) => assert!(bits >= 0x7f80_0003 && bits <= 0x7f80_0007),
        Float::Value(_) => assert!(bits < 0x7f80_0001 || bits > 0x7f80_0007),
        _ => unreachable!(),
    }
    assert_eq!(back, bits);
}

// @verif prop=C10 id=O10.4 tier=quick unwind=4 stubs="alloc::fmt::format->empty String" bound="type descriptor for EVERY element count 0..=40000 x every type (none,int8,int16,int32,float,string): byte layout per BCF2 6.3.3 incl. the >=15 overflow form" fns="encoder::value::ty::write_type,encoder::value::write_value (length scalar)"
#[kani::proof]
#[kani::unwind(4)]
#[kani::stub(std::fmt::format, stub_fmt_format)]
fn c10_type_descriptor_layout() {
    let len: usize = kani::any();
    kani::assume(len <= 40000);
    let which: u8 = kani::any();
    kani::assume(which < 6);
    let (ty, code) = match which {
        0 => (None, 0u8),
        1 => (Some(Type::Int8(len)), 1),
        2 => (Some(Type::Int16(len)), 2),
        3 => (Some(Type::Int32(len)), 3),
        4 => (Some(Type::Float(len)), 5),
        _ => (Some(Type::String(len)), 7),
    };
    let mut buf = [0u8; 8];
    let mut sink: &mut [u8] = &mut buf[..];
    write_type(&mut sink, ty).unwrap();
    let written = 8 - sink.len();
    let want_len = if which == 0 { 0 } else { len };
    let d = spec_descriptor(&buf[..written]);
    assert!(d.is_some());
    let (c2, n2, used) = d.unwrap();
    assert!(c2 == code && n2 == want_len && used == written);
    // minimal width for the overflow count
    if want_len >= 15 {
        assert_eq!(written, if want_len <= 127 { 3 } else if want_len <= 32767 { 4 } else { 6 });
    } else {
        assert_eq!(written, 1);
    }
    kani::cover!(want_len == 15);
    kani::cover!(want_len == 128);
    kani::cover!(want_len == 32768);
}

fn indices_case(a: usize, b: usize) {
    let mut buf = [0u8; 16];
    let mut sink: &mut [u8] = &mut buf[..];
    let r = write_string_map_indices(&mut sink, &[a, b]);
    let written = 16 - sink.len();
    let max = a.max(b);
    if max > i32::MAX as usize {
        assert!(r.is_err());
        std::mem::forget(r);
        return;
    }
    r.unwrap();
    let (code, n, used) = spec_descriptor(&buf[..written]).unwrap();
    assert_eq!(n, 2);
    // both indices read back as themselves from a vector whose width holds the LARGER one
    let (x, y) = match code {
        1 => (buf[used] as i8 as i64, buf[used + 1] as i8 as i64),
        2 => (
            i16::from_le_bytes([buf[used], buf[used + 1]]) as i64,
            i16::from_le_bytes([buf[used + 2], buf[used + 3]]) as i64,
        ),
        3 => (
            i32::from_le_bytes([buf[used], buf[used + 1], buf[used + 2], buf[used + 3]]) as i64,
            i32::from_le_bytes([buf[used + 4], buf[used + 5], buf[used + 6], buf[used + 7]]) as i64,
        ),
        _ => {
            assert!(false);
            (0, 0)
        }
    };
    assert!(x == a as i64 && y == b as i64);
}

// @verif prop=C10 id=O10.7 tier=off off_reason="does not fit: >900 s (Vec collect + boxed trait-object iteration in write_array)" unwind=4 stubs="alloc::fmt::format->empty String" bound="FILTER-style string-map index vector of 2 indices, ALL usize pairs: width holds the maximum, each index reads back equal (independent BCF2 parse), >i32::MAX rejected" fns="encoder::string_map::write_string_map_indices,write_value,write_array"
#[kani::proof]
#[kani::unwind(4)]
#[kani::stub(std::fmt::format, stub_fmt_format)]
fn c10_string_map_indices_pair() {
    let (a, b): (usize, usize) = kani::any();
    indices_case(a, b);
    kani::cover!(a > 127 && b < 100);
    kani::cover!(a < 100 && b > 40000);
}

// @verif prop=C10 id=O10.8 tier=quick unwind=4 stubs="alloc::fmt::format->empty String" bound="single string-map index, ALL usize: minimal typed scalar that decodes (noodles read_value, descriptor constant-folded) to the same index; >i32::MAX rejected" fns="encoder::string_map::write_string_map_index,decoder::value::read_value"
#[kani::proof]
#[kani::unwind(4)]
#[kani::stub(std::fmt::format, stub_fmt_format)]
fn c10_string_map_index_scalar() {
    let i: usize = kani::any();
    let mut buf = [0u8; 8];
    let mut sink: &mut [u8] = &mut buf[..];
    let r = write_string_map_index(&mut sink, i);
    let written = 8 - sink.len();
    if i > i32::MAX as usize {
        assert!(r.is_err());
        std::mem::forget(r);
        return;
    }
    r.unwrap();
    // R10: dispatch on the descriptor byte so that the decoder runs on a literal descriptor
    let got = match buf[0] {
        0x11 => {
            assert_eq!(written, 2);
            let b = [0x11, buf[1]];
            let mut s: &[u8] = &b[..];
            read_value(&mut s).unwrap().and_then(|v| v.as_int())
        }
        0x12 => {
            assert_eq!(written, 3);
            let b = [0x12, buf[1], buf[2]];
            let mut s: &[u8] = &b[..];
            read_value(&mut s).unwrap().and_then(|v| v.as_int())
        }
        0x13 => {
            assert_eq!(written, 5);
            let b = [0x13, buf[1], buf[2], buf[3], buf[4]];
            let mut s: &[u8] = &b[..];
            read_value(&mut s).unwrap().and_then(|v| v.as_int())
        }
        _ => None,
    };
    assert_eq!(got, Some(i as i32));
    kani::cover!(buf[0] == 0x12);
}

// canary
// @verif prop=C10 id=canary tier=quick expect=fail unwind=4 stubs="alloc::fmt::format->empty String" bound="deliberately wrong: claims a descriptor is always 1 byte" fns="write_type"
#[kani::proof]
#[kani::unwind(4)]
#[kani::stub(std::fmt::format, stub_fmt_format)]
fn c10_canary_descriptor_one_byte() {
    let len: usize = kani::any();
    kani::assume(len <= 100);
    let mut buf = [0u8; 8];
    let mut sink: &mut [u8] = &mut buf[..];
    write_type(&mut sink, Some(Type::Int8(len))).unwrap();
    assert_eq!(8 - sink.len(), 1);
}
