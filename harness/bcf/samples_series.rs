// Kani harnesses mounted inside noodles-bcf/src/record/samples/series.rs (lazy per-sample values of a
// BCF record; a C15 anchor).
#![allow(unused_imports, dead_code)]

use super::*;

pub fn stub_fmt_format(_args: std::fmt::Arguments<'_>) -> String {
    String::new()
}

fn any_src(buf: &[u8; 8]) -> &[u8] {
    let n: usize = kani::any();
    kani::assume(n <= 8);
    &buf[..n]
}

// @verif prop=C15 id=O15.bcf.series.int tier=quick unwind=6 bound="ARBITRARY per-sample data of 0..=8 bytes, value count 1, sample index 0..=3: the scalar integer/float getters of a lazy BCF sample series return, never panic (incl. raw values that are the end-of-vector / reserved codes)" fns="bcf::record::samples::series::get_i8_value,get_i16_value,get_i32_value,get_f32_value,range"
#[kani::proof]
#[kani::unwind(6)]
fn c15_bcf_series_scalar_number_getters() {
    let buf: [u8; 8] = kani::any();
    let src = any_src(&buf);
    let i: usize = kani::any();
    kani::assume(i <= 3);
    match kani::any::<u8>() % 4 {
        0 => {
            let v = get_i8_value(src, 1, i);
            std::mem::forget(v);
        }
        1 => {
            let v = get_i16_value(src, 1, i);
            std::mem::forget(v);
        }
        2 => {
            let v = get_i32_value(src, 1, i);
            std::mem::forget(v);
        }
        _ => {
            let v = get_f32_value(src, 1, i);
            std::mem::forget(v);
        }
    }
}

// @verif prop=C15 id=O15.bcf.series.str tier=quick unwind=10 timeout=600 stubs="alloc::fmt::format->empty String" bound="ARBITRARY per-sample data of 0..=8 bytes, string length 0..=3, sample index 0..=2: the string / character getters return, never panic (incl. invalid UTF-8 and empty strings)" fns="get_string,get_char_value"
#[kani::proof]
#[kani::unwind(10)]
#[kani::stub(std::fmt::format, stub_fmt_format)]
fn c15_bcf_series_string_getters() {
    let buf: [u8; 8] = kani::any();
    let src = any_src(&buf);
    let (len, i): (usize, usize) = kani::any();
    kani::assume(len <= 3 && i <= 2);
    if kani::any() {
        let s = get_string(src, len, i);
        std::mem::forget(s);
    } else {
        let v = get_char_value(src, len, i);
        std::mem::forget(v);
    }
}

// @verif prop=C15 id=O15.bcf.series.read tier=off off_reason="does not fit: >600 s" unwind=10 timeout=600 stubs="alloc::fmt::format->empty String" bound="ARBITRARY FORMAT block of 0..=8 bytes and sample count 0..=3: read_series returns Ok/Err, never panics (missing type, counts larger than the buffer)" fns="read_series,read_string_map_index,read_type,size_of"
#[kani::proof]
#[kani::unwind(10)]
#[kani::stub(std::fmt::format, stub_fmt_format)]
fn c15_bcf_read_series_arbitrary_bytes() {
    let buf: [u8; 8] = kani::any();
    let mut src = any_src(&buf);
    let sample_count: usize = kani::any();
    kani::assume(sample_count <= 3);
    let r = read_series(&mut src, sample_count);
    std::mem::forget(r);
}
