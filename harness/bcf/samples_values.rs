// Kani harness mounted inside noodles-bcf/src/record/codec/encoder/samples/values.rs.
#![allow(unused_imports, dead_code)]

use std::io::{self, Write};

use super::*;

pub fn stub_fmt_format(_args: std::fmt::Arguments<'_>) -> String {
    String::new()
}

struct G<const N: usize> {
    alleles: [(Option<usize>, Phasing); N],
}

impl<const N: usize> std::fmt::Debug for G<N> {
    fn fmt(&self, _f: &mut std::fmt::Formatter<'_>) -> std::fmt::Result {
        Ok(())
    }
}

impl<const N: usize> Genotype for G<N> {
    fn iter(&self) -> Box<dyn Iterator<Item = io::Result<(Option<usize>, Phasing)>> + '_> {
        Box::new(self.alleles.iter().map(|a| Ok(*a)))
    }
}

fn any_allele() -> (Option<usize>, Phasing) {
    let p: usize = kani::any();
    kani::assume(p < 60);
    let position = if kani::any() { Some(p) } else { None };
    let phasing = if kani::any() { Phasing::Phased } else { Phasing::Unphased };
    (position, phasing)
}

/// BCF2 6.3.3.9: allele code = (allele + 1) << 1 | phased, 0 = missing
fn spec_code(a: (Option<usize>, Phasing)) -> u8 {
    match a.0 {
        None => 0,
        Some(p) => (((p + 1) << 1) as u8) | if a.1 == Phasing::Phased { 1 } else { 0 },
    }
}

// @verif prop=C10 id=O10.6 tier=off off_reason="does not fit: >900 s (Vec<Vec<i8>>, boxed trait-object iterators); F15 was found while writing it and confirmed natively" unwind=8 timeout=900 stubs="alloc::fmt::format->empty String" bound="two samples with genotypes of ploidy 3 and 2 (every allele: any index < 60 or missing, any phasing): the GT vector is int8 x 3 per sample, allele codes (allele+1)<<1|phased in order, the shorter sample padded at its END with end-of-vector (0x81)" fns="bcf::record::codec::encoder::samples::values::write_genotype_values,encode_genotype,write_type"
#[kani::proof]
#[kani::unwind(8)]
#[kani::stub(std::fmt::format, stub_fmt_format)]
fn c10_genotype_vectors_of_unequal_ploidy() {
    let a = [any_allele(), any_allele(), any_allele()];
    let b = [any_allele(), any_allele()];
    let values = [
        Some(Value::Genotype(Box::new(G::<3> { alleles: a }))),
        Some(Value::Genotype(Box::new(G::<2> { alleles: b }))),
    ];
    let mut buf = [0u8; 16];
    let mut sink: &mut [u8] = &mut buf[..];
    let r = write_genotype_values(&mut sink, &values);
    let n = 16 - sink.len();
    assert!(r.is_ok());
    std::mem::forget(r);
    assert_eq!(n, 7);
    assert_eq!(buf[0], 0x31); // 3 x int8
    assert!(buf[1] == spec_code(a[0]) && buf[2] == spec_code(a[1]) && buf[3] == spec_code(a[2]));
    assert!(buf[4] == spec_code(b[0]) && buf[5] == spec_code(b[1]));
    assert_eq!(buf[6], 0x81); // end-of-vector padding
    std::mem::forget(values);
}
