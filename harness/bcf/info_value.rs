// Kani harnesses mounted inside noodles-bcf/src/record/codec/encoder/site/info/field/value.rs
// (sees the private integer writers).
#![allow(unused_imports, dead_code)]

use std::io::{self, Write};

use super::*;
use crate::record::codec::decoder::read_value;

pub fn stub_fmt_format(_args: std::fmt::Arguments<'_>) -> String {
    String::new()
}

// @verif prop=C10 id=O10.2 tier=quick unwind=4 stubs="alloc::fmt::format->empty String" bound="scalar INFO integer, ALL 2^32 i32 values: smallest width whose VALUE range (above the 8 reserved codes) holds it, decodes (noodles read_value, descriptor constant-folded) to the same number; values in the reserved band of int32 are rejected" fns="encoder::site::info::field::value::write_integer_value,encoder::value::write_value,decoder::value::read_value,Value::as_int"
#[kani::proof]
#[kani::unwind(4)]
#[kani::stub(std::fmt::format, stub_fmt_format)]
fn c10_info_integer_scalar_all_i32() {
    let n: i32 = kani::any();
    let mut buf = [0u8; 8];
    let mut sink: &mut [u8] = &mut buf[..];
    let r = write_integer_value(&mut sink, n);
    let written = 8 - sink.len();
    if n < i32::MIN + 8 {
        assert!(r.is_err()); // not representable: an error, never a different value
        std::mem::forget(r);
        return;
    }
    r.unwrap();
    // spec width selection: int8 values are -120..=127, int16 -32760..=32767
    let want = if n >= -120 && n <= 127 { 0x11 } else if n >= -32760 && n <= 32767 { 0x12 } else { 0x13 };
    assert_eq!(buf[0], want);
    let got = match buf[0] {
        0x11 => {
            assert_eq!(written, 2);
            let b = [0x11, buf[1]];
            let mut s: &[u8] = &b[..];
            read_value(&mut s).unwrap().and_then(|v| v.as_int())
        }
        0x12 => {
            assert_eq!(written, 3);
            let b = [0x12, buf[1], buf[2]];
            let mut s: &[u8] = &b[..];
            read_value(&mut s).unwrap().and_then(|v| v.as_int())
        }
        _ => {
            assert_eq!(written, 5);
            let b = [0x13, buf[1], buf[2], buf[3], buf[4]];
            let mut s: &[u8] = &b[..];
            read_value(&mut s).unwrap().and_then(|v| v.as_int())
        }
    };
    assert_eq!(got, Some(n));
    kani::cover!(n == -121);
    kani::cover!(n == 128);
    kani::cover!(n == -32761);
}
