// Kani harnesses mounted inside noodles-bcf/src/io/reader/record.rs (BCF record size reader).
#![allow(unused_imports, dead_code)]

#[path = "/verif/harness/common.rs"]
mod common;

use std::io::{self, Read};

use self::common::*;
use super::*;

fn site_length_case<const L: usize>(interrupts: u8) {
    let data: [u8; L] = kani::any();
    let mut src = Chunky::new(&data, interrupts);
    let r = kind_of(read_site_length(&mut src));
    if L >= 4 {
        assert!(r == Ok(u32::from_le_bytes([data[0], data[1], data[2], data[3]]) as usize));
        assert_eq!(src.pos, 4);
    } else if L == 0 {
        assert!(r == Ok(0)); // clean EOF at a record boundary
    } else {
        // the stream ends inside the length field: an error, never EOF and never a record
        assert!(r == Err(io::ErrorKind::UnexpectedEof));
        assert_eq!(src.pos, L);
    }
    kani::cover!(L == 0 || src.calls >= 3);
}

// @verif prop=C12 id=O12.5a tier=quick unwind=7 bound="5-byte stream served in EVERY partition into short reads (no Interrupted): BCF l_shared" fns="bcf::io::reader::record::read_site_length,read_exact_or_eof"
#[kani::proof]
#[kani::unwind(7)]
fn c12_bcf_site_length_any_partition() {
    site_length_case::<5>(0);
}

// @verif prop=C12,C13 id=O12.5b tier=quick unwind=7 bound="2-byte stream (ends inside l_shared), every partition: UnexpectedEof, never EOF" fns="read_site_length,read_exact_or_eof"
#[kani::proof]
#[kani::unwind(7)]
fn c13_bcf_site_length_partial_prefix_is_error() {
    site_length_case::<2>(0);
}

// @verif prop=C12 id=O12.5c tier=quick unwind=7 bound="4-byte stream, every partition, <=1 Interrupted at any call" fns="read_site_length,read_exact_or_eof"
#[kani::proof]
#[kani::unwind(7)]
fn c12_bcf_site_length_interrupted() {
    site_length_case::<4>(1);
}

// @verif prop=C12,C13 id=O12.5d tier=quick unwind=4 bound="empty stream with <=1 Interrupted: clean EOF (Ok(0))" fns="read_site_length,read_exact_or_eof"
#[kani::proof]
#[kani::unwind(4)]
fn c13_bcf_site_length_empty_stream() {
    site_length_case::<0>(1);
}
