// Kani harnesses mounted at the crate root of noodles-cram (cfg(kani) only).
#![allow(unused_imports, dead_code)]

#[path = "/verif/harness/common.rs"]
mod common;

use std::io::{self, Read, Write};

use self::common::*;
use crate::io::reader::num::{read_itf8, read_ltf8, read_uint7};
use crate::io::writer::num::{write_itf8, write_ltf8, write_uint7};

// ---- spec transcriptions (CRAM 3.1 §2.3 ITF-8 / LTF-8; CRAM codecs §1 uint7) --------------------

/// number of bytes ITF-8 uses for the 32-bit pattern `u`
fn itf8_len(u: u32) -> usize {
    if u < 1 << 7 {
        1
    } else if u < 1 << 14 {
        2
    } else if u < 1 << 21 {
        3
    } else if u < 1 << 28 {
        4
    } else {
        5
    }
}

fn ltf8_len(u: u64) -> usize {
    if u < 1 << 7 {
        1
    } else if u < 1 << 14 {
        2
    } else if u < 1 << 21 {
        3
    } else if u < 1 << 28 {
        4
    } else if u < 1 << 35 {
        5
    } else if u < 1 << 42 {
        6
    } else if u < 1 << 49 {
        7
    } else if u < 1 << 56 {
        8
    } else {
        9
    }
}

// @verif prop=C08 id=O8.1/itf8 tier=quick unwind=3 bound="ALL 2^32 i32 values (solver-exhaustive); 8-byte sink" fns="write_itf8,read_itf8,read_u8,read_u16_be,read_u24_be,read_u32_be"
#[kani::proof]
#[kani::unwind(3)]
fn c08_itf8_roundtrip_all_i32() {
    let n: i32 = kani::any();
    let mut buf = [0u8; 8];
    let mut sink: &mut [u8] = &mut buf[..];
    write_itf8(&mut sink, n).unwrap();
    let len = 8 - sink.len();
    // spec: length class by magnitude of the unsigned pattern; leading byte carries len-1 one-bits
    assert_eq!(len, itf8_len(n as u32));
    let lead_ones = (buf[0] as u8).leading_ones() as usize;
    assert_eq!(lead_ones.min(4), len - 1);
    // spec value layout (independent reconstruction of the encoded value)
    let u = n as u32;
    let expect0: u8 = match len {
        1 => u as u8,
        2 => 0x80 | (u >> 8) as u8,
        3 => 0xc0 | (u >> 16) as u8,
        4 => 0xe0 | (u >> 24) as u8,
        _ => 0xf0 | (u >> 28) as u8,
    };
    assert_eq!(buf[0], expect0);
    if len == 5 {
        assert!(buf[1] == (u >> 20) as u8 && buf[2] == (u >> 12) as u8 && buf[3] == (u >> 4) as u8);
        assert_eq!(buf[4] & 0x0f, (u & 0x0f) as u8);
    }
    let mut src: &[u8] = &buf[..];
    let m = read_itf8(&mut src).unwrap();
    assert_eq!(m, n);
    assert_eq!(8 - src.len(), len); // decoder consumes exactly the encoding
    kani::cover!(len == 5 && n < 0);
    kani::cover!(len == 3);
}

// @verif prop=C08 id=O8.1/ltf8 tier=quick unwind=3 bound="ALL 2^64 i64 values; 12-byte sink" fns="write_ltf8,read_ltf8,read_u40_be,read_u48_be,read_u56_be,read_u64_be"
#[kani::proof]
#[kani::unwind(3)]
fn c08_ltf8_roundtrip_all_i64() {
    let n: i64 = kani::any();
    let mut buf = [0u8; 12];
    let mut sink: &mut [u8] = &mut buf[..];
    write_ltf8(&mut sink, n).unwrap();
    let len = 12 - sink.len();
    assert_eq!(len, ltf8_len(n as u64));
    assert_eq!((buf[0] as u8).leading_ones() as usize, len - 1);
    let mut src: &[u8] = &buf[..];
    let m = read_ltf8(&mut src).unwrap();
    assert_eq!(m, n);
    assert_eq!(12 - src.len(), len);
    kani::cover!(len == 9 && n < 0);
    kani::cover!(len == 6);
}

// @verif prop=C08 id=O8.1/uint7 tier=quick unwind=7 bound="ALL 2^32 u32 values; 8-byte sink" fns="write_uint7,read_uint7"
#[kani::proof]
#[kani::unwind(7)]
fn c08_uint7_roundtrip_all_u32() {
    let n: u32 = kani::any();
    let mut buf = [0u8; 8];
    let mut sink: &mut [u8] = &mut buf[..];
    write_uint7(&mut sink, n).unwrap();
    let len = 8 - sink.len();
    // spec: big-endian base-128 digits, continuation bit on all but the last byte, minimal length
    let expect_len = if n < 1 << 7 { 1 } else if n < 1 << 14 { 2 } else if n < 1 << 21 { 3 } else if n < 1 << 28 { 4 } else { 5 };
    assert_eq!(len, expect_len);
    assert_eq!(buf[len - 1] & 0x80, 0);
    assert_eq!(buf[len - 1] & 0x7f, (n & 0x7f) as u8);
    if len > 1 {
        assert_eq!(buf[0] & 0x80, 0x80);
        assert!(buf[0] & 0x7f != 0);
    }
    let mut src: &[u8] = &buf[..];
    let m = read_uint7(&mut src).unwrap();
    assert_eq!(m, n);
    assert_eq!(8 - src.len(), len);
    kani::cover!(len == 5);
}

// @verif prop=C15,C08 id=O15.cram.num tier=quick unwind=8 bound="ARBITRARY buffer of 0..=10 bytes (symbolic length and contents) into each integer decoder: returns, never reads past its encoding" fns="read_itf8,read_ltf8,read_uint7"
#[kani::proof]
#[kani::unwind(8)]
fn c15_integer_decoders_arbitrary_bytes() {
    let buf: [u8; 10] = kani::any();
    let n: usize = kani::any();
    kani::assume(n <= 10);
    let which: u8 = kani::any();
    let mut src: &[u8] = &buf[..n];
    match which {
        0 => {
            let r = read_itf8(&mut src);
            if r.is_ok() {
                assert!(n - src.len() <= 5 && n - src.len() >= 1);
            }
            std::mem::forget(r);
        }
        1 => {
            let r = read_ltf8(&mut src);
            if r.is_ok() {
                assert!(n - src.len() <= 9 && n - src.len() >= 1);
            }
            std::mem::forget(r);
        }
        _ => {
            let r = read_uint7(&mut src);
            if r.is_ok() {
                assert!(n - src.len() <= 5 && n - src.len() >= 1);
            }
            std::mem::forget(r);
        }
    }
}

// canary
// @verif prop=C08 id=canary tier=quick expect=fail unwind=3 bound="deliberately wrong: claims ITF-8 never needs 5 bytes" fns="write_itf8"
#[kani::proof]
#[kani::unwind(3)]
fn c08_canary_itf8_max_4_bytes() {
    let n: i32 = kani::any();
    let mut buf = [0u8; 8];
    let mut sink: &mut [u8] = &mut buf[..];
    write_itf8(&mut sink, n).unwrap();
    assert!(8 - sink.len() <= 4);
}

// ------------------------------------------------------------------------------------------------
// C19: reference sequence context fold (public API of container::ReferenceSequenceContext)

// @verif prop=C19 id=O19.2 tier=quick unwind=4 bound="ARBITRARY context Some(id,s,e)/None/Many + one record (any optional id/start/end): one update step vs the spec fold (same reference -> min start/max end; different or unmapped -> Many; None stays None only for unplaced)" fns="ReferenceSequenceContext::update,Context::alignment_span"
#[kani::proof]
#[kani::unwind(4)]
fn c19_reference_context_update_step() {
    use crate::container::ReferenceSequenceContext as Ctx;
    use noodles_core::Position;
    let (id0, s0, e0, id1, s1, e1): (usize, usize, usize, usize, usize, usize) = kani::any();
    kani::assume(1 <= s0 && s0 <= e0 && 1 <= s1 && s1 <= e1);
    let which: u8 = kani::any();
    let mut ctx = match which {
        0 => Ctx::some(id0, Position::new(s0).unwrap(), Position::new(e0).unwrap()),
        1 => Ctx::None,
        _ => Ctx::Many,
    };
    let mapped: bool = kani::any();
    if mapped {
        ctx.update(Some(id1), Position::new(s1), Position::new(e1));
    } else {
        ctx.update(None, None, None);
    }
    match (which, mapped) {
        (0, true) if id0 == id1 => match ctx {
            Ctx::Some(c) => {
                assert!(c.reference_sequence_id() == id0);
                assert!(usize::from(c.alignment_start()) == s0.min(s1) && usize::from(c.alignment_end()) == e0.max(e1));
                assert_eq!(c.alignment_span(), e0.max(e1) - s0.min(s1) + 1);
            }
            _ => assert!(false),
        },
        (0, _) => assert!(ctx.is_many()), // other reference, or an unplaced record joins a mapped slice
        (1, false) => assert!(ctx == Ctx::None),
        (1, true) => assert!(ctx.is_many()),
        _ => assert!(ctx.is_many()),
    }
}

// @verif prop=C19,C15 id=O19.2b tier=quick unwind=4 bound="ALL (i32,i32,i32) header triples: -1 -> None, -2 -> Many, otherwise Some(id,start,start+span-1) iff id>=0,start>=1,span>=1; never a panic" fns="ReferenceSequenceContext::try_from((i32,i32,i32))"
#[kani::proof]
#[kani::unwind(4)]
fn c19_reference_context_from_raw_triple() {
    use crate::container::ReferenceSequenceContext as Ctx;
    let (id, start, span): (i32, i32, i32) = kani::any();
    let r = Ctx::try_from((id, start, span));
    match &r {
        Ok(Ctx::None) => assert_eq!(id, -1),
        Ok(Ctx::Many) => assert_eq!(id, -2),
        Ok(Ctx::Some(c)) => {
            assert!(id >= 0 && start >= 1 && span >= 1);
            assert!(c.reference_sequence_id() == id as usize && usize::from(c.alignment_start()) == start as usize);
            assert_eq!(c.alignment_span(), span as usize);
        }
        Err(_) => assert!(id < -2 || (id >= 0 && (start < 1 || span < 1))),
    }
    std::mem::forget(r);
}
