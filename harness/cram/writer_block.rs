// Kani harnesses mounted inside noodles-cram/src/io/writer/container/block.rs.
#![allow(unused_imports, dead_code)]

#[path = "/verif/harness/cram/crc_stub.rs"]
mod crc_stub;

use std::io::{self, Write};

use super::*;
use crate::container::block::{CompressionMethod, ContentType};
use crate::io::reader::container::block::read_block_as;

pub fn stub_fmt_format(_args: std::fmt::Arguments<'_>) -> String {
    String::new()
}

fn block_roundtrip<const N: usize>() {
    let data: [u8; N] = kani::any();
    let content_id: i32 = kani::any();
    kani::assume(content_id >= 0 && content_id < 128); // 1-byte ITF8 ids (all ITF8 values: C08)
    let block = Block {
        compression_method: CompressionMethod::None,
        content_type: ContentType::ExternalData,
        content_id,
        uncompressed_size: N,
        src: data.to_vec(),
    };
    let mut out = [0u8; 24];
    let mut sink: &mut [u8] = &mut out[..];
    write_block(&mut sink, &block).unwrap();
    let written = 24 - sink.len();
    // CRAM 3.x block layout: method, content type, content id, compressed size, raw size, data, CRC32
    assert_eq!(written, 5 + N + 4);
    assert!(out[0] == 0 && out[1] == 4 && out[2] == content_id as u8 && out[3] == N as u8 && out[4] == N as u8);
    // declared sizes equal actual, CRC-32 covers everything before it
    let crc = u32::from_le_bytes([out[5 + N], out[6 + N], out[7 + N], out[8 + N]]);
    assert_eq!(crc, crc_stub::crc32_of(&out[..5 + N]));
    let mut src: &[u8] = &out[..written];
    let b = read_block_as(&mut src, ContentType::ExternalData).unwrap();
    assert!(src.is_empty());
    assert!(b.compression_method == CompressionMethod::None && b.content_id == content_id && b.uncompressed_size == N);
    assert_eq!(b.src.len(), N);
    let i: usize = kani::any();
    kani::assume(i < N);
    assert_eq!(b.src[i], data[i]);
    // a corrupted byte anywhere before the checksum is detected (CRC-32 detects all 1-byte errors)
    let k: usize = kani::any();
    kani::assume(k >= 5 && k < 5 + N);
    let flip: u8 = kani::any();
    kani::assume(flip != 0);
    out[k] ^= flip;
    let mut src: &[u8] = &out[..written];
    let r = read_block_as(&mut src, ContentType::ExternalData);
    assert!(r.is_err());
    std::mem::forget(r);
    std::mem::forget(block);
}

// @verif prop=C07 id=O7.1/2 tier=quick unwind=20 timeout=900 stubs="flate2::Crc::{new,update,sum}->exact bitwise CRC-32,alloc::fmt::format->empty String" bound="external block with 2 symbolic data bytes, any 1-byte content id, method none: write_block -> independent layout check -> read_block_as inverse; any single corrupted data byte is rejected" fns="io::writer::container::block::write_block,write_block_inner,write_size,io::reader::container::block::read_block,read_block_as"
#[kani::proof]
#[kani::unwind(20)]
#[kani::stub(flate2::Crc::new, crc_stub::crc_new)]
#[kani::stub(flate2::Crc::update, crc_stub::crc_update)]
#[kani::stub(flate2::Crc::sum, crc_stub::crc_sum)]
#[kani::stub(std::fmt::format, stub_fmt_format)]
fn c07_block_write_read_inverse_2() {
    block_roundtrip::<2>();
}

// @verif prop=C07,C08 id=O7.1/size tier=quick unwind=4 bound="ALL i32: itf8_size_of(n) equals the number of bytes write_itf8 emits (block size accounting)" fns="io::writer::container::block::itf8_size_of,write_itf8"
#[kani::proof]
#[kani::unwind(4)]
fn c07_itf8_size_of_matches_writer() {
    let n: i32 = kani::any();
    let mut buf = [0u8; 8];
    let mut sink: &mut [u8] = &mut buf[..];
    write_itf8(&mut sink, n).unwrap();
    assert_eq!(8 - sink.len(), itf8_size_of(n));
}
