// Kani harnesses mounted inside noodles-cram/src/codecs/rans_4x8/encode.rs.
#![allow(unused_imports, dead_code)]

use super::*;
use crate::codecs::rans_4x8::decode;

// @verif prop=C08 id=O8.3/4x8 tier=quick unwind=5 bound="ALL lane states s in [2^23,2^31) and ALL frequencies 1<=f<=4096: renormalised state in [2^11*f, 2^19*f) (the domain assumed by O8.2), <=2 bytes emitted, bytes+state reconstruct s, decoder renormalisation (bytes in reverse order) restores s" fns="rans_4x8::encode::state_renormalize,rans_4x8::decode::state_renormalize"
#[kani::proof]
#[kani::unwind(5)]
fn c08_rans_4x8_renormalize_inverse() {
    let s: u32 = kani::any();
    let f: u16 = kani::any();
    kani::assume(s >= (1 << 23) && s < (1u32 << 31));
    kani::assume(f >= 1 && f <= 4096);
    let mut buf = [0u8; 4];
    let mut sink: &mut [u8] = &mut buf[..];
    let s1 = state_renormalize(s, f, &mut sink).unwrap();
    let n = 4 - sink.len();
    let lo = (f as u64) << 11;
    let hi = (f as u64) << 19;
    assert!((s1 as u64) >= lo && (s1 as u64) < hi);
    assert!(n <= 2);
    // emitted low byte first; state and bytes reconstruct s
    let mut back = s1;
    let mut i = n;
    while i > 0 {
        back = (back << 8) | buf[i - 1] as u32;
        i -= 1;
    }
    assert_eq!(back, s);
    // decoder side: the encoder's output is reversed as a whole, so the decoder sees the bytes in
    // reverse emission order
    let rev = [buf[1], buf[0]];
    let mut src: &[u8] = if n == 2 { &rev[..] } else { &buf[..n] };
    if s1 < (1 << 23) {
        let r = decode::state_renormalize(s1, &mut src);
        match &r {
            Ok(v) => assert!(*v >= (1 << 23)),
            Err(_) => {}
        }
        // the decoder stops as soon as the state is back in range, which is exactly at s
        if n >= 1 {
            assert!(matches!(r, Ok(v) if v == s) || n == 0);
        }
        std::mem::forget(r);
    }
    kani::cover!(n == 2);
    kani::cover!(n == 0);
}
