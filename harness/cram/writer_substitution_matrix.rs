// Mounted as `pub(crate) mod verif_kani` inside
// noodles-cram/src/io/writer/container/compression_header/preservation_map/substitution_matrix.rs and
// re-exported upwards by cfg(kani) `pub(crate) use` lines: exposes the writer-side matrix encoder.
#![allow(unused_imports, dead_code)]

use super::*;

pub(crate) fn enc_substitution_matrix(m: &SubstitutionMatrix) -> [u8; 5] {
    encode(m)
}
