// Mounted as `pub(crate) mod verif_kani` inside noodles-cram/src/codecs/rans_4x8/encode/order_0.rs and
// re-exported by a cfg(kani) `pub(crate) use` in encode.rs: exposes the encoder-side frequency table
// writer to the decoder-side harness.
#![allow(unused_imports, dead_code)]

use super::*;

pub(crate) fn enc_write_frequencies(dst: &mut [u8], frequencies: &[u16; 256]) -> Option<usize> {
    let total = dst.len();
    let mut sink: &mut [u8] = dst;
    let r = write_frequencies(&mut sink, frequencies);
    let left = sink.len();
    let ok = r.is_ok();
    std::mem::forget(r);
    if ok { Some(total - left) } else { None }
}
