// Kani harnesses mounted inside noodles-cram/src/codecs/rans_4x8/decode/order_0.rs.
#![allow(unused_imports, dead_code)]

use super::*;
use crate::codecs::rans_4x8::encode::verif_kani_order_0::enc_write_frequencies;

fn any_freq() -> u16 {
    let f: u16 = kani::any();
    kani::assume(f >= 1 && f <= 4095);
    f
}

/// order-0 frequency table: write_frequencies -> read_frequencies must give the table back and
/// consume every byte
fn table_roundtrip(freqs: &[u16; 256]) {
    let mut buf = [0u8; 40];
    let n = enc_write_frequencies(&mut buf, freqs);
    assert!(n.is_some());
    let n = n.unwrap();
    let mut src: &[u8] = &buf[..n];
    let back = read_frequencies(&mut src);
    assert!(back.is_ok());
    let back = back.unwrap();
    let i: usize = kani::any();
    kani::assume(i < 256);
    assert_eq!(back[i], freqs[i]);
    assert!(src.is_empty());
}

// the non-zero entries sit at LITERAL indices (so that the 256-entry table stays constant elsewhere and
// the writer's loop constant-folds); their values are symbolic
macro_rules! table_harness {
    ($name:ident, $($s:expr),+) => {
        #[kani::proof]
        #[kani::unwind(258)]
        fn $name() {
            let mut freqs = [0u16; 256];
            $( freqs[$s] = any_freq(); )+
            table_roundtrip(&freqs);
        }
    };
}

// @verif prop=C08 id=O8.5/1 tier=off off_reason="does not fit: >900 s (256-iteration table loops force unwind 258); F14 was found while writing this obligation and confirmed natively" harness=c08_rans4x8_freq_table_symbols_1 unwind=258 timeout=900 bound="order-0 frequency table whose only symbol is 1 (frequency symbolic 1..=4095): serialise -> parse gives the same 256-entry table, all bytes consumed" fns="rans_4x8::encode::order_0::write_frequencies,rans_4x8::decode::order_0::read_frequencies"
table_harness!(c08_rans4x8_freq_table_symbols_1, 1);
// @verif prop=C08 id=O8.5/1-2 tier=off off_reason="does not fit: >900 s (256-iteration table loops force unwind 258); F14 was found while writing this obligation and confirmed natively" harness=c08_rans4x8_freq_table_symbols_1_2 unwind=258 timeout=900 bound="symbols {1,2} (first symbol is 1, consecutive), symbolic frequencies" fns="write_frequencies,read_frequencies"
table_harness!(c08_rans4x8_freq_table_symbols_1_2, 1, 2);
// @verif prop=C08 id=O8.5/0-1 tier=off off_reason="does not fit: >900 s (256-iteration table loops force unwind 258); F14 was found while writing this obligation and confirmed natively" harness=c08_rans4x8_freq_table_symbols_0_1 unwind=258 timeout=900 bound="symbols {0,1}" fns="write_frequencies,read_frequencies"
table_harness!(c08_rans4x8_freq_table_symbols_0_1, 0, 1);
// @verif prop=C08 id=O8.5/5-7 tier=off off_reason="does not fit: >900 s (256-iteration table loops force unwind 258); F14 was found while writing this obligation and confirmed natively" harness=c08_rans4x8_freq_table_symbols_5_6_7 unwind=258 timeout=900 bound="symbols {5,6,7} (run-length form)" fns="write_frequencies,read_frequencies"
table_harness!(c08_rans4x8_freq_table_symbols_5_6_7, 5, 6, 7);
// @verif prop=C08 id=O8.5/3-5 tier=off off_reason="does not fit: >900 s (256-iteration table loops force unwind 258); F14 was found while writing this obligation and confirmed natively" harness=c08_rans4x8_freq_table_symbols_3_5 unwind=258 timeout=900 bound="symbols {3,5} (no run)" fns="write_frequencies,read_frequencies"
table_harness!(c08_rans4x8_freq_table_symbols_3_5, 3, 5);
// @verif prop=C08 id=O8.5/253-255 tier=off off_reason="does not fit: >900 s (256-iteration table loops force unwind 258); F14 was found while writing this obligation and confirmed natively" harness=c08_rans4x8_freq_table_symbols_253_254_255 unwind=258 timeout=900 bound="symbols {253,254,255} (run reaching the last symbol)" fns="write_frequencies,read_frequencies"
table_harness!(c08_rans4x8_freq_table_symbols_253_254_255, 253, 254, 255);
// @verif prop=C08 id=O8.5/255 tier=off off_reason="does not fit: >900 s (256-iteration table loops force unwind 258); F14 was found while writing this obligation and confirmed natively" harness=c08_rans4x8_freq_table_symbols_255 unwind=258 timeout=900 bound="only symbol 255" fns="write_frequencies,read_frequencies"
table_harness!(c08_rans4x8_freq_table_symbols_255, 255);

// @verif prop=C15 id=O15.cram.rans4x8.freq tier=off off_reason="does not fit: >900 s" unwind=12 timeout=900 bound="ARBITRARY buffer of 0..=9 bytes into the order-0 frequency table reader: returns Ok/Err, no panic / arithmetic overflow" fns="rans_4x8::decode::order_0::read_frequencies"
#[kani::proof]
#[kani::unwind(12)]
fn c15_rans4x8_read_frequencies_arbitrary_bytes() {
    let buf: [u8; 9] = kani::any();
    let n: usize = kani::any();
    kani::assume(n <= 9);
    let mut src: &[u8] = &buf[..n];
    let r = read_frequencies(&mut src);
    kani::cover!(r.is_ok());
    std::mem::forget(r);
}
