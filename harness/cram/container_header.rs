// Kani harnesses mounted inside noodles-cram/src/io/reader/container/header.rs.
#![allow(unused_imports, dead_code)]

#[path = "/verif/harness/cram/crc_stub.rs"]
mod crc_stub;

use std::io::{self, Read};

use super::*;
use crate::io::writer::container::EOF;

pub fn stub_fmt_format(_args: std::fmt::Arguments<'_>) -> String {
    String::new()
}

fn kind_of<T>(r: io::Result<T>) -> Result<T, io::ErrorKind> {
    match r {
        Ok(v) => Ok(v),
        Err(e) => {
            let k = e.kind();
            std::mem::forget(e);
            Err(k)
        }
    }
}

const EOF_HEADER_LEN: usize = 23; // length(4) + header fields + CRC32(4) of the EOF container

// @verif prop=C13 id=O13.3 tier=off off_reason="does not fit: >14 GB (CrcReader + io::Error drop glue under every field read)" unwind=6 timeout=900 stubs="flate2::Crc::{new,update,sum}->loop-free model returning the (true) CRC-32 0x4fd9bd05 of the EOF container header,alloc::fmt::format->empty String" bound="the 38-byte EOF container written by noodles, cut at EVERY offset 0..=38 (symbolic): a cut inside the 23-byte container header is an error (never a clean end), the complete header is recognised as EOF (Ok(0))" fns="io::reader::container::header::read_header,read_header_inner,read_landmarks,is_eof,ReferenceSequenceContext::try_from"
#[kani::proof]
#[kani::unwind(6)]
#[kani::stub(flate2::Crc::new, crc_stub::crc_new)]
#[kani::stub(flate2::Crc::update, crc_stub::crc_update_noop)]
#[kani::stub(flate2::Crc::sum, crc_stub::crc_sum_eof_constant)]
#[kani::stub(std::fmt::format, stub_fmt_format)]
fn c13_cram_container_header_truncated() {
    let c: usize = kani::any();
    kani::assume(c <= 38);
    let mut src: &[u8] = &EOF[..c];
    let mut header = Header::default();
    let r = kind_of(read_header(&mut src, &mut header));
    if c >= EOF_HEADER_LEN {
        assert!(r == Ok(0)); // the EOF container
        assert_eq!(src.len(), c - EOF_HEADER_LEN);
    } else {
        // the file ends inside a container header: reported as an error, not as end of file
        assert!(r == Err(io::ErrorKind::UnexpectedEof));
    }
    kani::cover!(c == 2);
    kani::cover!(c == 22);
    std::mem::forget(header);
}

// @verif prop=C15 id=O15.cram.header tier=off off_reason="does not fit: >14 GB (CrcReader + io::Error drop glue under every field read)" unwind=6 timeout=900 stubs="flate2::Crc::{new,update,sum}->loop-free model with a fixed checksum value (the stored checksum bytes are symbolic, so both outcomes of the comparison are explored),alloc::fmt::format->empty String" bound="ARBITRARY buffer of 0..=28 bytes into the container header reader with the landmark count limited to <=2 by assumption: returns Ok or Err, no panic/overflow" fns="read_header,read_header_inner,read_landmarks,ReferenceSequenceContext::try_from,read_itf8_as,read_ltf8_as"
#[kani::proof]
#[kani::unwind(6)]
#[kani::stub(flate2::Crc::new, crc_stub::crc_new)]
#[kani::stub(flate2::Crc::update, crc_stub::crc_update_noop)]
#[kani::stub(flate2::Crc::sum, crc_stub::crc_sum_eof_constant)]
#[kani::stub(std::fmt::format, stub_fmt_format)]
fn c15_cram_container_header_arbitrary_bytes() {
    let buf: [u8; 28] = kani::any();
    let n: usize = kani::any();
    kani::assume(n <= 28);
    let mut src: &[u8] = &buf[..n];
    let mut header = Header::default();
    let r = read_header(&mut src, &mut header);
    if r.is_ok() {
        kani::assume(header.landmarks.len() <= 2);
        kani::cover!(header.landmarks.len() == 1);
    }
    std::mem::forget(r);
    std::mem::forget(header);
}
