// Kani harness mounted inside noodles-cram/src/io/reader/query.rs (sees Query's fields).
#![allow(unused_imports, dead_code)]

use std::io::{self, Cursor};

use noodles_core::{Position, region::Interval};
use noodles_sam::{
    self as sam,
    alignment::{
        RecordBuf,
        record::cigar::{Op, op::Kind},
    },
};

use super::*;

/// fixed SipHash keys instead of the getrandom syscall (IndexMap order does not depend on them)
pub fn stub_random_state_new() -> std::hash::RandomState {
    unsafe { std::mem::transmute::<(u64, u64), std::hash::RandomState>((1, 2)) }
}

// @verif prop=C19 id=O19.1 tier=quick unwind=5 timeout=900 stubs="std::hash::RandomState::new->fixed keys" bound="the real Query state machine with ONE pending decoded record (any reference id 0..=3 or unmapped, any start, one M op of any length < 2^20) and ANY queried (reference id, closed interval): read_record_buf yields the record iff it is on the queried reference AND its span intersects the interval; index exhausted afterwards" fns="cram::io::reader::query::Query::read_record_buf,intersects,Query::read_next_container,RecordBuf::alignment_end"
#[kani::proof]
#[kani::unwind(5)]
#[kani::stub(std::hash::RandomState::new, stub_random_state_new)]
fn c19_query_filter_reference_and_interval() {
    let (rid, start, len, qid, qs, qe): (usize, usize, usize, usize, usize, usize) = kani::any();
    kani::assume(rid <= 3 && qid <= 3);
    kani::assume(1 <= start && start < (1 << 28) && 1 <= len && len < (1 << 20));
    kani::assume(1 <= qs && qs <= qe && qe < (1 << 29));
    let mapped: bool = kani::any();

    let mut b = RecordBuf::builder()
        .set_alignment_start(Position::new(start).unwrap())
        .set_cigar([Op::new(Kind::Match, len)].into_iter().collect());
    if mapped {
        b = b.set_reference_sequence_id(rid);
    }
    let rec = b.build();

    let data: [u8; 0] = [];
    let mut reader = Reader::new(Cursor::new(&data[..]));
    let header = sam::Header::default();
    let index: crai::Index = Vec::new();
    let interval: Interval = (Position::new(qs).unwrap()..=Position::new(qe).unwrap()).into();
    let mut q = Query {
        reader: &mut reader,
        header: &header,
        index: index.iter(),
        reference_sequence_id: qid,
        interval,
        records: vec![rec].into_iter(),
    };
    let mut out = RecordBuf::default();
    let n = q.read_record_buf(&mut out).unwrap();
    let end = start + len - 1;
    let expected = mapped && rid == qid && start <= qe && qs <= end;
    assert_eq!(n == 1, expected);
    if n == 1 {
        assert!(out.alignment_start() == Position::new(start));
    }
    kani::cover!(n == 1);
    kani::cover!(n == 0 && mapped && rid != qid && start <= qe && qs <= end); // other reference, same coordinates
    std::mem::forget(out);
    std::mem::forget(q);
    std::mem::forget(reader);
    std::mem::forget(header);
}
