// Native-faithful model of flate2::Crc (DESIGN R9): exact bitwise CRC-32 kept in a harness-side
// global (only one Crc is alive at a time in the code under test). The real flate2/crc32fast code
// selects a SIMD implementation through cpuid inline asm, which Kani cannot execute.
#![allow(dead_code, static_mut_refs)]

static mut CRC: u32 = 0xffff_ffff;
static mut AMT: u32 = 0;

pub fn crc_new() -> flate2::Crc {
    unsafe {
        CRC = 0xffff_ffff;
        AMT = 0;
        // the stubbed methods never look at the fields
        std::mem::zeroed()
    }
}

pub fn crc_update(_this: &mut flate2::Crc, data: &[u8]) {
    unsafe {
        let mut crc = CRC;
        let mut i = 0;
        while i < data.len() {
            crc ^= data[i] as u32;
            let mut k = 0;
            while k < 8 {
                let mask = (crc & 1).wrapping_neg();
                crc = (crc >> 1) ^ (0xedb8_8320 & mask);
                k += 1;
            }
            i += 1;
        }
        CRC = crc;
        AMT = AMT.wrapping_add(data.len() as u32);
    }
}

pub fn crc_sum(_this: &flate2::Crc) -> u32 {
    unsafe { !CRC }
}

pub fn crc32_of(data: &[u8]) -> u32 {
    let mut crc: u32 = 0xffff_ffff;
    let mut i = 0;
    while i < data.len() {
        crc ^= data[i] as u32;
        let mut k = 0;
        while k < 8 {
            let mask = (crc & 1).wrapping_neg();
            crc = (crc >> 1) ^ (0xedb8_8320 & mask);
            k += 1;
        }
        i += 1;
    }
    !crc
}

// ---- loop-free variant for harnesses whose data has a KNOWN checksum (the EOF container) or where
// only "no panic" is claimed: update is a no-op, sum returns the CRC-32 of the EOF container header
// (0x4fd9bd05, CRAM spec section 9).  Faithful on the complete EOF header; on truncated input the
// reader fails before it ever compares checksums.

pub fn crc_update_noop(_this: &mut flate2::Crc, _data: &[u8]) {}

pub fn crc_sum_eof_constant(_this: &flate2::Crc) -> u32 {
    0x4fd9_bd05
}
