// Kani harnesses mounted inside noodles-cram/src/codecs/rans_nx16/encode.rs.
#![allow(unused_imports, dead_code)]

use super::*;
use crate::codecs::rans_nx16::decode::verif_kani::dec_renorm;

fn renorm_case(bits: u32) {
    let (s, f): (u32, u32) = kani::any();
    // inductive invariant of the encoder: every lane state is in [2^15, 2^31); 1 <= f <= 2^bits
    kani::assume(s >= (1 << 15) && s < (1u32 << 31));
    kani::assume(f >= 1 && f <= (1 << bits));
    let mut dst = Vec::with_capacity(8);
    let s1 = state_renormalize(s, f, bits, &mut dst);
    // (1) the state handed to state_step is exactly in the domain the step obligations (E2) assume
    let lo = (1u64 << (15 - bits)) * f as u64;
    let hi = (1u64 << (31 - bits)) * f as u64;
    assert!((s1 as u64) >= lo && (s1 as u64) < hi);
    // (2) at most one 16-bit word is emitted and state + word reconstruct the input state
    assert!(dst.len() == 0 || dst.len() == 2);
    if dst.len() == 2 {
        let w = u16::from_be_bytes([dst[0], dst[1]]) as u32;
        assert_eq!((s1 << 16) | w, s);
        // (3) the decoder reads that word back: the stream is reversed as a whole, so the bytes arrive
        // swapped (big-endian written, little-endian read)
        let rev = [dst[1], dst[0]];
        let mut src: &[u8] = &rev[..];
        if s1 < (1 << 15) {
            assert_eq!(dec_renorm(s1, &mut src), Some(s));
            assert!(src.is_empty());
        }
    } else {
        assert_eq!(s1, s);
    }
    kani::cover!(dst.len() == 2);
    kani::cover!(dst.len() == 0);
    std::mem::forget(dst);
}

// @verif prop=C08 id=O8.3/nx16-bits12 tier=quick unwind=4 bound="bits=12: ALL lane states s in [2^15,2^31) and ALL frequencies 1<=f<=4096: renormalised state in [2^3*f, 2^19*f) (the domain assumed by O8.2), <=1 word emitted, word+state reconstruct s, decoder renormalisation reads it back" fns="rans_nx16::encode::state_renormalize,write_u16_be,rans_nx16::decode::state_renormalize,read_u16_le"
#[kani::proof]
#[kani::unwind(4)]
fn c08_rans_nx16_renormalize_inverse_bits12() {
    renorm_case(12);
}

// @verif prop=C08 id=O8.3/nx16-bits10 tier=quick unwind=4 bound="bits=10: ALL lane states and ALL 1<=f<=1024 (order-1 tables)" fns="rans_nx16::encode::state_renormalize,rans_nx16::decode::state_renormalize"
#[kani::proof]
#[kani::unwind(4)]
fn c08_rans_nx16_renormalize_inverse_bits10() {
    renorm_case(10);
}
