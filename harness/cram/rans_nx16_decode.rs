// Mounted as `pub(crate) mod verif_kani` inside noodles-cram/src/codecs/rans_nx16/decode.rs:
// exposes the private decoder renormalisation to the encoder-side harness.
#![allow(unused_imports, dead_code)]

use super::*;

pub(crate) fn dec_renorm(s: u32, src: &mut &[u8]) -> Option<u32> {
    let r = state_renormalize(s, src);
    let v = match &r {
        Ok(v) => Some(*v),
        Err(_) => None,
    };
    std::mem::forget(r);
    v
}
