// Kani harnesses mounted inside
// noodles-cram/src/io/reader/container/compression_header/preservation_map/substitution_matrix.rs.
#![allow(unused_imports, dead_code)]

use super::*;
use crate::container::compression_header::preservation_map::substitution_matrix::Base;
use crate::io::writer::container::compression_header::verif_kani_sm::enc_substitution_matrix;

/// a substitution code byte is valid iff its four 2-bit fields are a permutation of 0..=3 (CRAM 3.1
/// section 8.4: "the order of the 2-bit codes of the possible substitutions")
fn is_permutation_code(b: u8) -> bool {
    let f = [(b >> 6) & 3, (b >> 4) & 3, (b >> 2) & 3, b & 3];
    f[0] != f[1] && f[0] != f[2] && f[0] != f[3] && f[1] != f[2] && f[1] != f[3] && f[2] != f[3]
}

fn any_base() -> Base {
    match kani::any::<u8>() % 5 {
        0 => Base::A,
        1 => Base::C,
        2 => Base::G,
        3 => Base::T,
        _ => Base::N,
    }
}

// @verif prop=C07 id=O7.4 tier=quick unwind=8 timeout=600 bound="EVERY valid 5-byte substitution matrix encoding (each byte a permutation code: 24^5 matrices): reader decode -> writer encode gives the same bytes; for the decoded matrix, get/find are inverse for every (reference base, code) and every (reference base, read base != reference base), and no row contains its own reference base" fns="io::reader::..::substitution_matrix::decode,read_substitution_matrix,io::writer::..::substitution_matrix::encode,SubstitutionMatrix::get,SubstitutionMatrix::find"
#[kani::proof]
#[kani::unwind(8)]
fn c07_substitution_matrix_codec_and_lookup_inverse() {
    let b: [u8; 5] = kani::any();
    kani::assume(is_permutation_code(b[0]) && is_permutation_code(b[1]) && is_permutation_code(b[2]));
    kani::assume(is_permutation_code(b[3]) && is_permutation_code(b[4]));
    let mut src: &[u8] = &b[..];
    let m = read_substitution_matrix(&mut src).unwrap();
    assert!(src.is_empty());
    // writer side is the inverse of the reader side
    let back = enc_substitution_matrix(&m);
    let i: usize = kani::any();
    kani::assume(i < 5);
    assert_eq!(back[i], b[i]);
    // lookups
    let r = any_base();
    let code: u8 = kani::any();
    kani::assume(code < 4);
    let read = m.get(r, code);
    assert!(read != r); // a substitution never maps a base to itself
    assert_eq!(m.find(r, read), code);
    let read2 = any_base();
    if read2 != r {
        let c2 = m.find(r, read2);
        assert!(c2 < 4);
        assert!(m.get(r, c2) == read2);
    }
    kani::cover!(b[0] != 0x1b && code == 3);
}
