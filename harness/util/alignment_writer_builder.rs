// Kani harnesses mounted inside noodles-util/src/alignment/io/writer/builder.rs.
#![allow(unused_imports, dead_code)]

use std::io;

use super::super::Inner;
use super::*;

/// fixed SipHash keys instead of the getrandom syscall (`fasta::Repository::default()` holds a
/// HashMap cache; nothing is inserted)
pub fn stub_random_state_new() -> std::hash::RandomState {
    unsafe { std::mem::transmute::<(u64, u64), std::hash::RandomState>((1, 2)) }
}

// @verif prop=C20 id=O20.4a tier=quick unwind=40 timeout=600 stubs="std::hash::RandomState::new->fixed keys" bound="EVERY configuration of the generic alignment writer builder over format in {unset, SAM, BAM} x compression in {unset, explicitly none, BGZF} (9 configurations, symbolic choice): the writer stack built by build_from_writer is exactly the configured (format, compression) pair, with the documented defaults (format SAM; compression by format) only where an option is UNSET; CRAM is outside this obligation; sink = io::sink(), nothing is written" fns="alignment::io::writer::Builder::build_from_writer,sam::io::Writer::new,bam::io::Writer::new,bam::io::Writer::from,bgzf::io::Writer::new"
#[kani::proof]
#[kani::unwind(40)]
#[kani::stub(std::hash::RandomState::new, stub_random_state_new)]
fn c20_alignment_writer_stack_matches_configuration() {
    let mut b = Builder::default();
    let f: u8 = kani::any();
    kani::assume(f < 3);
    b.format = match f {
        0 => None,
        1 => Some(Format::Sam),
        _ => Some(Format::Bam),
    };
    let c: u8 = kani::any();
    kani::assume(c < 3);
    b.compression_method = match c {
        0 => None,
        1 => Some(None),
        _ => Some(Some(CompressionMethod::Bgzf)),
    };
    match b.build_from_writer(io::sink()) {
        Ok(w) => {
            let (is_bam, is_bgzf) = match &w.0 {
                Inner::Sam(_) => (false, false),
                Inner::SamGz(_) => (false, true),
                Inner::Bam(_) => (true, true),
                Inner::BamRaw(_) => (true, false),
                Inner::Cram(_) => {
                    assert!(false, "CRAM writer built for a SAM/BAM configuration");
                    (false, false)
                }
            };
            let want_bam = f == 2;
            let want_bgzf = match c {
                0 => want_bam, // unset: BAM defaults to BGZF, SAM to none
                1 => false,    // explicitly uncompressed
                _ => true,     // explicitly BGZF
            };
            assert!(is_bam == want_bam, "writer format differs from the configured format");
            assert!(
                is_bgzf == want_bgzf,
                "writer compression differs from the configured compression"
            );
            kani::cover!(is_bam && !is_bgzf);
            kani::cover!(!is_bam && is_bgzf);
            std::mem::forget(w);
        }
        Err(e) => {
            std::mem::forget(e);
            assert!(false, "SAM/BAM configuration rejected");
        }
    }
}
