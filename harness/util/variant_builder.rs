// Kani harnesses mounted inside noodles-util/src/variant/io/reader/builder.rs.
#![allow(unused_imports, dead_code)]

use std::io::{self, BufRead, Read};

use super::*;

// @verif prop=C20 id=O20.1b tier=quick unwind=6 bound="ARBITRARY window of 0..=8 bytes: gzip magic <=> Bgzf; otherwise BCF iff the window starts with 'BCF', else VCF; short windows never panic" fns="variant::io::reader::builder::detect_compression_method,detect_format"
#[kani::proof]
#[kani::unwind(6)]
fn c20_variant_detection_on_arbitrary_window() {
    let buf: [u8; 8] = kani::any();
    let n: usize = kani::any();
    kani::assume(n <= 8);
    let mut src: &[u8] = &buf[..n];
    let cm = detect_compression_method(&mut src).unwrap();
    let is_gz = n >= 2 && buf[0] == 0x1f && buf[1] == 0x8b;
    assert_eq!(cm.is_some(), is_gz);
    if !is_gz {
        let f = detect_format(&mut src, None).unwrap();
        let is_bcf = n >= 3 && buf[0] == b'B' && buf[1] == b'C' && buf[2] == b'F';
        assert_eq!(f == Format::Bcf, is_bcf);
        // a VCF always starts with "##fileformat": never confused with BCF
        if n >= 2 && buf[0] == b'#' && buf[1] == b'#' {
            assert!(f == Format::Vcf);
        }
        kani::cover!(is_bcf);
    }
}

// canary
// @verif prop=C20 id=canary tier=quick expect=fail unwind=6 bound="deliberately wrong: claims nothing is ever detected as BCF" fns="detect_format"
#[kani::proof]
#[kani::unwind(6)]
fn c20_canary_never_bcf() {
    let buf: [u8; 4] = kani::any();
    let mut src: &[u8] = &buf[..];
    assert!(detect_format(&mut src, None).unwrap() == Format::Vcf);
}
