// Kani harnesses mounted inside noodles-util/src/variant/io/writer/builder.rs.
#![allow(unused_imports, dead_code)]

use std::io;

use super::super::Inner;
use super::*;

/// fixed SipHash keys instead of the getrandom syscall (bcf::io::Writer holds StringMaps, i.e.
/// IndexSets; nothing is inserted)
pub fn stub_random_state_new() -> std::hash::RandomState {
    unsafe { std::mem::transmute::<(u64, u64), std::hash::RandomState>((1, 2)) }
}

fn any_compression() -> (u8, Option<Option<CompressionMethod>>) {
    let c: u8 = kani::any();
    kani::assume(c < 3);
    let cm = match c {
        0 => None,
        1 => Some(None),
        _ => Some(Some(CompressionMethod::Bgzf)),
    };
    (c, cm)
}

fn check_stack(b: Builder, want_bcf: bool, c: u8) {
    let w = b.build_from_writer(io::sink());
    let (is_bcf, is_bgzf) = match &w.0 {
        Inner::Vcf(_) => (false, false),
        Inner::VcfGz(_) => (false, true),
        Inner::Bcf(_) => (true, true), // bcf::io::Writer<bgzf::io::Writer<W>>
        Inner::BcfRaw(_) => (true, false), // bcf::io::Writer<BufWriter<W>>
    };
    let want_bgzf = match c {
        0 => want_bcf, // unset: BCF defaults to BGZF, VCF to none
        1 => false,    // explicitly uncompressed
        _ => true,     // explicitly BGZF
    };
    assert!(is_bcf == want_bcf, "writer format differs from the configured format");
    assert!(
        is_bgzf == want_bgzf,
        "writer compression differs from the configured compression"
    );
    kani::cover!(is_bgzf);
    kani::cover!(!is_bgzf);
    std::mem::forget(w);
}

// @verif prop=C20 id=O20.4b/unset tier=quick unwind=40 timeout=600 stubs="std::hash::RandomState::new->fixed keys" bound="generic variant writer builder with the format UNSET (documented default: VCF) x compression in {unset, explicitly none, BGZF} (symbolic choice): the writer stack built by build_from_writer is VCF with exactly the configured compression (unset -> none); sink = io::sink(), nothing is written. The format is concrete per harness because a symbolic format makes CBMC execute the BCF arms (string-map construction) under a guard: >600 s" fns="variant::io::writer::Builder::build_from_writer,vcf::io::Writer::new,bgzf::io::Writer::new"
#[kani::proof]
#[kani::unwind(40)]
#[kani::stub(std::hash::RandomState::new, stub_random_state_new)]
fn c20_variant_writer_stack_matches_configuration_format_unset() {
    let mut b = Builder::default();
    b.format = None;
    let (c, cm) = any_compression();
    b.compression_method = cm;
    check_stack(b, false, c);
}

// @verif prop=C20 id=O20.4b/vcf tier=quick unwind=40 timeout=600 stubs="std::hash::RandomState::new->fixed keys" bound="same with set_format(Vcf) x compression in {unset, explicitly none, BGZF} (symbolic choice)" fns="variant::io::writer::Builder::build_from_writer,vcf::io::Writer::new,bgzf::io::Writer::new"
#[kani::proof]
#[kani::unwind(40)]
#[kani::stub(std::hash::RandomState::new, stub_random_state_new)]
fn c20_variant_writer_stack_matches_configuration_vcf() {
    let mut b = Builder::default();
    b.format = Some(Format::Vcf);
    let (c, cm) = any_compression();
    b.compression_method = cm;
    check_stack(b, false, c);
}

// @verif prop=C20 id=O20.4c tier=off unwind=40 timeout=1500 stubs="std::hash::RandomState::new->fixed keys" bound="OFF: does not fit: >600 s / 3 GB even for a fully concrete configuration, because bcf::io::Writer::from -> StringMaps::default() inserts PASS into a hashbrown map; decided instead by O20.4e with StringMap::insert stubbed (1.5 s) -- format = BCF x compression in {unset, explicitly none, BGZF} (3 configurations, symbolic choice): the writer stack is the configured pair, default BCF -> BGZF (this is where defect F27 was: the two BCF arms were swapped); bcf::io::Writer::from builds the default string maps (inserts PASS into a HashMap: concrete but expensive)" fns="variant::io::writer::Builder::build_from_writer,bcf::io::Writer::new,bcf::io::Writer::from,bgzf::io::Writer::new,vcf::header::StringMaps::default"
#[kani::proof]
#[kani::unwind(40)]
#[kani::stub(std::hash::RandomState::new, stub_random_state_new)]
fn c20_variant_writer_stack_matches_configuration_bcf() {
    let mut b = Builder::default();
    b.format = Some(Format::Bcf);
    let (c, cm) = any_compression();
    b.compression_method = cm;
    check_stack(b, true, c);
}

/// `StringMaps::default()` inserts "PASS" into a HashMap-backed StringMap: concrete, but the hashbrown
/// insert alone costs CBMC minutes.  The dictionary contents are irrelevant to WHICH stack is built.
pub fn stub_string_map_insert(
    _map: &mut noodles_vcf::header::string_maps::StringMap,
    _value: String,
) -> Option<String> {
    None
}

// @verif prop=C20 id=O20.4e tier=quick unwind=40 timeout=600 stubs="std::hash::RandomState::new->fixed keys; vcf StringMap::insert->no-op (the BCF writer's default dictionary content is irrelevant to the stack chosen)" bound="format = BCF x compression in {unset, explicitly none, BGZF} (symbolic choice): the writer stack is BCF with exactly the configured compression, default BGZF (defect F27 was here)" fns="variant::io::writer::Builder::build_from_writer,bcf::io::Writer::new,bcf::io::Writer::from,bgzf::io::Writer::new"
#[kani::proof]
#[kani::unwind(40)]
#[kani::stub(std::hash::RandomState::new, stub_random_state_new)]
#[kani::stub(noodles_vcf::header::string_maps::StringMap::insert, stub_string_map_insert)]
fn c20_variant_writer_stack_bcf_any_compression() {
    let mut b = Builder::default();
    b.format = Some(Format::Bcf);
    let (c, cm) = any_compression();
    b.compression_method = cm;
    check_stack(b, true, c);
}
