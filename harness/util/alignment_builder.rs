// Kani harnesses mounted inside noodles-util/src/alignment/io/reader/builder.rs.
#![allow(unused_imports, dead_code)]

#[path = "/verif/harness/common.rs"]
mod common;

use std::io::{self, BufRead, Read};

use self::common::*;
use super::*;

// @verif prop=C20 id=O20.1a tier=quick unwind=6 bound="ARBITRARY window of 0..=8 bytes (symbolic length/contents) as returned by one fill_buf: compression and (uncompressed-branch) format detection follow the magic numbers exactly; short windows never panic" fns="alignment::io::reader::builder::detect_compression_method,detect_format"
#[kani::proof]
#[kani::unwind(6)]
fn c20_alignment_detection_on_arbitrary_window() {
    let buf: [u8; 8] = kani::any();
    let n: usize = kani::any();
    kani::assume(n <= 8);
    let mut src: &[u8] = &buf[..n];
    let cm = detect_compression_method(&mut src).unwrap();
    let is_gz = n >= 2 && buf[0] == 0x1f && buf[1] == 0x8b;
    assert_eq!(cm.is_some(), is_gz);
    if !is_gz {
        let f = detect_format(&mut src, None).unwrap();
        let is_bam = n >= 4 && buf[0] == b'B' && buf[1] == b'A' && buf[2] == b'M' && buf[3] == 1;
        let is_cram = n >= 4 && buf[0] == b'C' && buf[1] == b'R' && buf[2] == b'A' && buf[3] == b'M';
        match f {
            Format::Bam => assert!(is_bam),
            Format::Cram => assert!(is_cram),
            Format::Sam => assert!(!is_bam && !is_cram),
        }
        assert_eq!(src.len(), n); // detection only peeks
        kani::cover!(is_bam);
        kani::cover!(is_cram);
    }
}

// @verif prop=C20 id=O20.2 tier=quick unwind=6 bound="first 4 bytes of ANY text a SAM writer can emit first: an '@' header line, or a read name over [!-?A-~] followed by TAB (names of 1..=3 bytes or longer), excluding the 4-letter prefix CRAM which is examined separately: detected as SAM" fns="detect_format"
#[kani::proof]
#[kani::unwind(6)]
fn c20_sam_writer_output_is_detected_as_sam() {
    let buf: [u8; 4] = kani::any();
    // what can precede the first TAB of a SAM record / header line
    let name_byte = |b: u8| (b >= b'!' && b <= b'?') || (b >= b'A' && b <= b'~');
    let mut ok = buf[0] == b'@' || name_byte(buf[0]);
    let mut i = 1;
    let mut ended = false;
    while i < 4 {
        if !ended {
            if buf[i] == b'\t' && buf[0] != b'@' {
                ended = true; // read name ended; the rest is FLAG etc. (printable)
            } else if buf[0] == b'@' {
                ok = ok && (buf[i] == b'\t' || (buf[i] >= b' ' && buf[i] <= b'~'));
            } else {
                ok = ok && name_byte(buf[i]);
            }
        } else {
            ok = ok && (buf[i] >= b' ' && buf[i] <= b'~');
        }
        i += 1;
    }
    kani::assume(ok);
    kani::assume(!(buf[0] == b'C' && buf[1] == b'R' && buf[2] == b'A' && buf[3] == b'M'));
    let mut src: &[u8] = &buf[..];
    assert!(detect_compression_method(&mut src).unwrap().is_none());
    assert!(detect_format(&mut src, None).unwrap() == Format::Sam);
}

// @verif prop=C20,C12 id=O20.3 tier=quick unwind=6 bound="stream starting with the BAM magic BAM\\1 delivered through a BufRead whose FIRST fill_buf window is any 1..=8 bytes (a short first read): must still be detected as BAM" fns="detect_format"
#[kani::proof]
#[kani::unwind(6)]
fn c20_bam_magic_detected_for_any_first_window() {
    let data = [b'B', b'A', b'M', 1, 0, 0, 0, 0];
    let mut src = ChunkyBuf::new(&data);
    let f = detect_format(&mut src, None).unwrap();
    assert!(f == Format::Bam);
}
