// Kani harnesses mounted inside noodles-csi/src/binning_index/index/reference_sequence.rs
// (sees the private reg2bin / reg2bins / parent_id).
#![allow(unused_imports, dead_code)]

use bit_vec::BitVec;
use noodles_bgzf as bgzf;
use noodles_core::Position;

use super::index::{BinnedIndex, Index as RsIndex, LinearIndex};
use super::*;
use crate::binning_index::optimize_chunks;

fn pos(n: usize) -> Position {
    Position::new(n).unwrap()
}

fn vp(n: u64) -> bgzf::VirtualPosition {
    bgzf::VirtualPosition::from(n)
}

// ---- specification transcriptions (CSIv1.pdf / SAM spec 5.3), written independently -------------

/// first bin id of level l (level 0 = root): (8^l - 1) / 7
fn level_offset(l: u32) -> usize {
    ((1usize << (3 * l)) - 1) / 7
}

/// bin of level l containing 0-based position z
fn bin_at_level(z: usize, l: u32, min_shift: u32, depth: u32) -> usize {
    level_offset(l) + (z >> (min_shift + 3 * (depth - l)))
}

/// Is `bin` one of the bins that may hold features overlapping the 0-based closed range [zb, ze]?
/// (closed form of the spec's reg2bins: one contiguous id range per level)
fn in_reg2bins_closed_form(bin: usize, zb: usize, ze: usize, min_shift: u32, depth: u32) -> bool {
    let mut l = 0;
    let mut hit = false;
    while l <= depth {
        let lo = bin_at_level(zb, l, min_shift, depth);
        let hi = bin_at_level(ze, l, min_shift, depth);
        if lo <= bin && bin <= hi {
            hit = true;
        }
        l += 1;
    }
    hit
}

fn containment(min_shift: u8, depth: u8) {
    let max_pos = (1usize << (min_shift as u32 + 3 * depth as u32)) - 1;
    let (fs, fe, rs, re): (usize, usize, usize, usize) = kani::any();
    kani::assume(1 <= fs && fs <= fe && fe <= max_pos);
    kani::assume(1 <= rs && rs <= re && re <= max_pos);
    kani::assume(fs <= re && rs <= fe); // feature and region intersect
    let bin = reg2bin(pos(fs), pos(fe), min_shift, depth);
    assert!(bin < Bin::max_id(depth));
    assert!(in_reg2bins_closed_form(bin, rs - 1, re - 1, min_shift as u32, depth as u32));
    // the bin is the SMALLEST bin containing the whole feature (spec definition of reg2bin)
    let mut l = depth as u32;
    let mut expect = 0;
    let mut found = false;
    while l > 0 {
        let a = bin_at_level(fs - 1, l, min_shift as u32, depth as u32);
        let b = bin_at_level(fe - 1, l, min_shift as u32, depth as u32);
        if !found && a == b {
            expect = a;
            found = true;
        }
        l -= 1;
    }
    assert_eq!(bin, expect);
    kani::cover!(bin == 0);
    kani::cover!(bin >= level_offset(depth as u32));
}

// @verif prop=C17,C04 id=O17.1/14-5 tier=quick unwind=8 bound="geometry (min_shift 14, depth 5) = BAI/tabix/default CSI; ALL feature and region intervals within 1..=2^29-1 that intersect" fns="reg2bin,Bin::max_id"
#[kani::proof]
#[kani::unwind(8)]
fn c17_reg2bin_in_reg2bins_14_5() {
    containment(14, 5);
}

macro_rules! containment_geometry {
    ($name:ident, $ms:expr, $d:expr) => {
        #[kani::proof]
        #[kani::unwind(9)]
        fn $name() {
            containment($ms, $d);
        }
    };
}

// @verif prop=C17 id=O17.1/1-1 tier=quick harness=c17_containment_1_1 unwind=9 bound="geometry (1,1), all intersecting interval pairs" fns="reg2bin"
containment_geometry!(c17_containment_1_1, 1, 1);
// @verif prop=C17 id=O17.1/3-3 tier=quick harness=c17_containment_3_3 unwind=9 bound="geometry (3,3), all intersecting interval pairs" fns="reg2bin"
containment_geometry!(c17_containment_3_3, 3, 3);
// @verif prop=C17 id=O17.1/12-6 tier=quick harness=c17_containment_12_6 unwind=9 bound="geometry (12,6) non-default CSI, all intersecting interval pairs" fns="reg2bin"
containment_geometry!(c17_containment_12_6, 12, 6);
// @verif prop=C17 id=O17.1/2-2 tier=thorough harness=c17_containment_2_2 unwind=9 bound="geometry (2,2)" fns="reg2bin"
containment_geometry!(c17_containment_2_2, 2, 2);
// @verif prop=C17 id=O17.1/16-4 tier=thorough harness=c17_containment_16_4 unwind=9 bound="geometry (16,4)" fns="reg2bin"
containment_geometry!(c17_containment_16_4, 16, 4);
// @verif prop=C17 id=O17.1/9-7 tier=thorough harness=c17_containment_9_7 unwind=9 bound="geometry (9,7)" fns="reg2bin"
containment_geometry!(c17_containment_9_7, 9, 7);
// @verif prop=C17 id=O17.1/20-3 tier=thorough harness=c17_containment_20_3 unwind=9 bound="geometry (20,3)" fns="reg2bin"
containment_geometry!(c17_containment_20_3, 20, 3);


// thorough: geometry grid (min_shift x depth), every instance decides ALL intersecting interval pairs
// @verif prop=C17 id=O17.1/grid-2-1 tier=thorough harness=c17_containment_grid_2_1 unwind=9 bound="geometry (min_shift 2, depth 1), all intersecting interval pairs" fns="reg2bin"
containment_geometry!(c17_containment_grid_2_1, 2, 1);
// @verif prop=C17 id=O17.1/grid-4-1 tier=thorough harness=c17_containment_grid_4_1 unwind=9 bound="geometry (min_shift 4, depth 1), all intersecting interval pairs" fns="reg2bin"
containment_geometry!(c17_containment_grid_4_1, 4, 1);
// @verif prop=C17 id=O17.1/grid-8-1 tier=thorough harness=c17_containment_grid_8_1 unwind=9 bound="geometry (min_shift 8, depth 1), all intersecting interval pairs" fns="reg2bin"
containment_geometry!(c17_containment_grid_8_1, 8, 1);
// @verif prop=C17 id=O17.1/grid-14-1 tier=thorough harness=c17_containment_grid_14_1 unwind=9 bound="geometry (min_shift 14, depth 1), all intersecting interval pairs" fns="reg2bin"
containment_geometry!(c17_containment_grid_14_1, 14, 1);
// @verif prop=C17 id=O17.1/grid-16-1 tier=thorough harness=c17_containment_grid_16_1 unwind=9 bound="geometry (min_shift 16, depth 1), all intersecting interval pairs" fns="reg2bin"
containment_geometry!(c17_containment_grid_16_1, 16, 1);
// @verif prop=C17 id=O17.1/grid-1-2 tier=thorough harness=c17_containment_grid_1_2 unwind=9 bound="geometry (min_shift 1, depth 2), all intersecting interval pairs" fns="reg2bin"
containment_geometry!(c17_containment_grid_1_2, 1, 2);
// @verif prop=C17 id=O17.1/grid-4-2 tier=thorough harness=c17_containment_grid_4_2 unwind=9 bound="geometry (min_shift 4, depth 2), all intersecting interval pairs" fns="reg2bin"
containment_geometry!(c17_containment_grid_4_2, 4, 2);
// @verif prop=C17 id=O17.1/grid-8-2 tier=thorough harness=c17_containment_grid_8_2 unwind=9 bound="geometry (min_shift 8, depth 2), all intersecting interval pairs" fns="reg2bin"
containment_geometry!(c17_containment_grid_8_2, 8, 2);
// @verif prop=C17 id=O17.1/grid-14-2 tier=thorough harness=c17_containment_grid_14_2 unwind=9 bound="geometry (min_shift 14, depth 2), all intersecting interval pairs" fns="reg2bin"
containment_geometry!(c17_containment_grid_14_2, 14, 2);
// @verif prop=C17 id=O17.1/grid-16-2 tier=thorough harness=c17_containment_grid_16_2 unwind=9 bound="geometry (min_shift 16, depth 2), all intersecting interval pairs" fns="reg2bin"
containment_geometry!(c17_containment_grid_16_2, 16, 2);
// @verif prop=C17 id=O17.1/grid-1-3 tier=thorough harness=c17_containment_grid_1_3 unwind=9 bound="geometry (min_shift 1, depth 3), all intersecting interval pairs" fns="reg2bin"
containment_geometry!(c17_containment_grid_1_3, 1, 3);
// @verif prop=C17 id=O17.1/grid-2-3 tier=thorough harness=c17_containment_grid_2_3 unwind=9 bound="geometry (min_shift 2, depth 3), all intersecting interval pairs" fns="reg2bin"
containment_geometry!(c17_containment_grid_2_3, 2, 3);
// @verif prop=C17 id=O17.1/grid-4-3 tier=thorough harness=c17_containment_grid_4_3 unwind=9 bound="geometry (min_shift 4, depth 3), all intersecting interval pairs" fns="reg2bin"
containment_geometry!(c17_containment_grid_4_3, 4, 3);
// @verif prop=C17 id=O17.1/grid-8-3 tier=thorough harness=c17_containment_grid_8_3 unwind=9 bound="geometry (min_shift 8, depth 3), all intersecting interval pairs" fns="reg2bin"
containment_geometry!(c17_containment_grid_8_3, 8, 3);
// @verif prop=C17 id=O17.1/grid-14-3 tier=thorough harness=c17_containment_grid_14_3 unwind=9 bound="geometry (min_shift 14, depth 3), all intersecting interval pairs" fns="reg2bin"
containment_geometry!(c17_containment_grid_14_3, 14, 3);
// @verif prop=C17 id=O17.1/grid-16-3 tier=thorough harness=c17_containment_grid_16_3 unwind=9 bound="geometry (min_shift 16, depth 3), all intersecting interval pairs" fns="reg2bin"
containment_geometry!(c17_containment_grid_16_3, 16, 3);
// @verif prop=C17 id=O17.1/grid-1-4 tier=thorough harness=c17_containment_grid_1_4 unwind=9 bound="geometry (min_shift 1, depth 4), all intersecting interval pairs" fns="reg2bin"
containment_geometry!(c17_containment_grid_1_4, 1, 4);
// @verif prop=C17 id=O17.1/grid-2-4 tier=thorough harness=c17_containment_grid_2_4 unwind=9 bound="geometry (min_shift 2, depth 4), all intersecting interval pairs" fns="reg2bin"
containment_geometry!(c17_containment_grid_2_4, 2, 4);
// @verif prop=C17 id=O17.1/grid-4-4 tier=thorough harness=c17_containment_grid_4_4 unwind=9 bound="geometry (min_shift 4, depth 4), all intersecting interval pairs" fns="reg2bin"
containment_geometry!(c17_containment_grid_4_4, 4, 4);
// @verif prop=C17 id=O17.1/grid-8-4 tier=thorough harness=c17_containment_grid_8_4 unwind=9 bound="geometry (min_shift 8, depth 4), all intersecting interval pairs" fns="reg2bin"
containment_geometry!(c17_containment_grid_8_4, 8, 4);
// @verif prop=C17 id=O17.1/grid-14-4 tier=thorough harness=c17_containment_grid_14_4 unwind=9 bound="geometry (min_shift 14, depth 4), all intersecting interval pairs" fns="reg2bin"
containment_geometry!(c17_containment_grid_14_4, 14, 4);
// @verif prop=C17 id=O17.1/grid-1-5 tier=thorough harness=c17_containment_grid_1_5 unwind=9 bound="geometry (min_shift 1, depth 5), all intersecting interval pairs" fns="reg2bin"
containment_geometry!(c17_containment_grid_1_5, 1, 5);
// @verif prop=C17 id=O17.1/grid-2-5 tier=thorough harness=c17_containment_grid_2_5 unwind=9 bound="geometry (min_shift 2, depth 5), all intersecting interval pairs" fns="reg2bin"
containment_geometry!(c17_containment_grid_2_5, 2, 5);
// @verif prop=C17 id=O17.1/grid-4-5 tier=thorough harness=c17_containment_grid_4_5 unwind=9 bound="geometry (min_shift 4, depth 5), all intersecting interval pairs" fns="reg2bin"
containment_geometry!(c17_containment_grid_4_5, 4, 5);
// @verif prop=C17 id=O17.1/grid-8-5 tier=thorough harness=c17_containment_grid_8_5 unwind=9 bound="geometry (min_shift 8, depth 5), all intersecting interval pairs" fns="reg2bin"
containment_geometry!(c17_containment_grid_8_5, 8, 5);
// @verif prop=C17 id=O17.1/grid-16-5 tier=thorough harness=c17_containment_grid_16_5 unwind=9 bound="geometry (min_shift 16, depth 5), all intersecting interval pairs" fns="reg2bin"
containment_geometry!(c17_containment_grid_16_5, 16, 5);
// @verif prop=C17 id=O17.1/grid-1-6 tier=thorough harness=c17_containment_grid_1_6 unwind=9 bound="geometry (min_shift 1, depth 6), all intersecting interval pairs" fns="reg2bin"
containment_geometry!(c17_containment_grid_1_6, 1, 6);
// @verif prop=C17 id=O17.1/grid-2-6 tier=thorough harness=c17_containment_grid_2_6 unwind=9 bound="geometry (min_shift 2, depth 6), all intersecting interval pairs" fns="reg2bin"
containment_geometry!(c17_containment_grid_2_6, 2, 6);
// @verif prop=C17 id=O17.1/grid-4-6 tier=thorough harness=c17_containment_grid_4_6 unwind=9 bound="geometry (min_shift 4, depth 6), all intersecting interval pairs" fns="reg2bin"
containment_geometry!(c17_containment_grid_4_6, 4, 6);
// @verif prop=C17 id=O17.1/grid-8-6 tier=thorough harness=c17_containment_grid_8_6 unwind=9 bound="geometry (min_shift 8, depth 6), all intersecting interval pairs" fns="reg2bin"
containment_geometry!(c17_containment_grid_8_6, 8, 6);
// @verif prop=C17 id=O17.1/grid-14-6 tier=thorough harness=c17_containment_grid_14_6 unwind=9 bound="geometry (min_shift 14, depth 6), all intersecting interval pairs" fns="reg2bin"
containment_geometry!(c17_containment_grid_14_6, 14, 6);
// @verif prop=C17 id=O17.1/grid-16-6 tier=thorough harness=c17_containment_grid_16_6 unwind=9 bound="geometry (min_shift 16, depth 6), all intersecting interval pairs" fns="reg2bin"
containment_geometry!(c17_containment_grid_16_6, 16, 6);

/// real reg2bins into a real BitVec == closed form, probe bit symbolic
fn reg2bins_matches_closed_form(min_shift: u8, depth: u8) {
    let max_pos = (1usize << (min_shift as u32 + 3 * depth as u32)) - 1;
    let (rs, re): (usize, usize) = kani::any();
    kani::assume(1 <= rs && rs <= re && re <= max_pos);
    let n = Bin::max_id(depth);
    let mut bins = BitVec::from_elem(n, false);
    reg2bins(pos(rs), pos(re), min_shift, depth, &mut bins);
    let k: usize = kani::any();
    kani::assume(k < n);
    assert_eq!(
        bins[k],
        in_reg2bins_closed_form(k, rs - 1, re - 1, min_shift as u32, depth as u32)
    );
    kani::cover!(bins[k] && k > 1);
    kani::cover!(!bins[k]);
    std::mem::forget(bins);
}

// @verif prop=C17,C04 id=O17.2/1-1 tier=quick unwind=11 bound="geometry (1,1): 9 bins; all regions within 1..=15; every bit of the real BitVec" fns="reg2bins,BitVec::set"
#[kani::proof]
#[kani::unwind(11)]
fn c17_reg2bins_closed_form_1_1() {
    reg2bins_matches_closed_form(1, 1);
}

// @verif prop=C17,C04 id=O17.2/3-1 tier=quick unwind=11 bound="geometry (3,1): 9 bins; all regions within 1..=63" fns="reg2bins"
#[kani::proof]
#[kani::unwind(11)]
fn c17_reg2bins_closed_form_3_1() {
    reg2bins_matches_closed_form(3, 1);
}

// @verif prop=C17 id=O17.2/1-2 tier=thorough unwind=67 timeout=1500 bound="geometry (1,2): 73 bins; all regions within 1..=127" fns="reg2bins"
#[kani::proof]
#[kani::unwind(67)]
fn c17_reg2bins_closed_form_1_2() {
    reg2bins_matches_closed_form(1, 2);
}

// @verif prop=C17,C04 id=O17.3 tier=quick unwind=8 bound="geometry (14,5), any position 1..=2^29-1: parent_id chain from the leaf bin" fns="parent_id,reg2bin"
#[kani::proof]
#[kani::unwind(8)]
fn c17_parent_chain_visits_containing_bins() {
    let (min_shift, depth) = (14u8, 5u8);
    let p: usize = kani::any();
    kani::assume(1 <= p && p <= (1usize << 29) - 1);
    let mut id = reg2bin(pos(p), pos(p), min_shift, depth);
    let mut l = depth as u32;
    loop {
        // the chain visits exactly the bin of each level that contains p
        assert_eq!(id, bin_at_level(p - 1, l, min_shift as u32, depth as u32));
        match parent_id(id) {
            Some(q) => {
                assert!(l > 0);
                id = q;
                l -= 1;
            }
            None => {
                assert!(l == 0 && id == 0);
                break;
            }
        }
    }
}

// ------------------------------------------------------------------------------------------------
// C04 / C17: chunk lists

fn covered(chunks: &[Chunk], x: bgzf::VirtualPosition) -> bool {
    let mut i = 0;
    let mut c = false;
    while i < chunks.len() {
        if chunks[i].start() <= x && x < chunks[i].end() {
            c = true;
        }
        i += 1;
    }
    c
}

// @verif prop=C04,C17 id=O4.1 tier=quick unwind=5 bound="bin with 0..=2 chunks (sorted, disjoint, non-empty: as the indexer builds them) + any chunk at or after the last one in file order; any probe offset" fns="Bin::add_chunk"
#[kani::proof]
#[kani::unwind(5)]
fn c04_add_chunk_never_uncovers() {
    let n: u8 = kani::any();
    let (a0, a1, b0, b1, c0, c1, x): (u64, u64, u64, u64, u64, u64, u64) = kani::any();
    kani::assume(a0 < a1 && a1 < b0 && b0 < b1); // two disjoint sorted chunks
    kani::assume(c0 < c1);
    let old: Vec<Chunk> = match n {
        0 => vec![],
        1 => vec![Chunk::new(vp(a0), vp(a1))],
        _ => vec![Chunk::new(vp(a0), vp(a1)), Chunk::new(vp(b0), vp(b1))],
    };
    // file order: the new record starts at or after the end of every earlier record
    if let Some(last) = old.last() {
        kani::assume(vp(c0) >= last.end());
    }
    let x = vp(x);
    let before = covered(&old, x);
    let mut bin = Bin::new(old);
    let new = Chunk::new(vp(c0), vp(c1));
    bin.add_chunk(new);
    let after = covered(bin.chunks(), x);
    if before || (new.start() <= x && x < new.end()) {
        assert!(after);
    }
    // stays sorted and non-empty
    let cs = bin.chunks();
    assert!(!cs.is_empty() && cs.len() <= 3);
    let i: usize = kani::any();
    kani::assume(i < 4 && i + 1 < cs.len());
    assert!(cs[i].start() < cs[i].end() && cs[i].end() <= cs[i + 1].start());
    kani::cover!(cs.len() == 2 && n == 2); // merged into the last chunk
    kani::cover!(cs.len() == 3);
    std::mem::forget(bin);
}

fn optimize_case<const N: usize>() {
    let raw: [(u64, u64); N] = kani::any();
    let mut chunks = [Chunk::new(vp(0), vp(0)); N];
    let mut i = 0;
    while i < N {
        kani::assume(raw[i].0 < raw[i].1);
        chunks[i] = Chunk::new(vp(raw[i].0), vp(raw[i].1));
        i += 1;
    }
    let (m, x): (u64, u64) = kani::any();
    let (m, x) = (vp(m), vp(x));
    let out = optimize_chunks(&chunks, m);
    // soundness: nothing a retained chunk covered is uncovered
    let mut i = 0;
    let mut was = false; // covered by an input chunk that survives the min_offset filter
    let mut any = false; // covered by any input chunk
    while i < N {
        if chunks[i].start() <= x && x < chunks[i].end() {
            any = true;
            if chunks[i].end() > m {
                was = true;
            }
        }
        i += 1;
    }
    let now = covered(&out, x);
    if was {
        assert!(now);
    }
    // precision: the output covers nothing the input did not cover
    if now {
        assert!(any);
    }
    // sorted, disjoint
    assert!(out.len() <= N);
    let j: usize = kani::any();
    kani::assume(j < 8 && j + 1 < out.len());
    assert!(out[j].end() < out[j + 1].start());
    kani::cover!(out.len() == 1 && N > 1);
    kani::cover!(out.len() == N);
    std::mem::forget(out);
}

// @verif prop=C04,C17 id=O4.2/1 tier=off off_reason="does not fit: >1500 s even for ONE chunk (symbolic-length collect + slice::sort_unstable internals); seeded change C15-B lives here and is not caught" unwind=4 timeout=1500 bound="exactly 1 arbitrary non-empty chunk, any min_offset, any probe offset" fns="optimize_chunks,merge_chunks"
#[kani::proof]
#[kani::unwind(4)]
fn c04_optimize_chunks_1() {
    optimize_case::<1>();
}

// @verif prop=C04,C17 id=O4.2/2 tier=off off_reason="does not fit: >1500 s even for ONE chunk (symbolic-length collect + slice::sort_unstable internals); seeded change C15-B lives here and is not caught" unwind=5 timeout=900 bound="exactly 2 arbitrary non-empty chunks (any order/overlap), any min_offset, any probe offset" fns="optimize_chunks,slice::sort_unstable_by_key"
#[kani::proof]
#[kani::unwind(5)]
fn c04_optimize_chunks_2() {
    optimize_case::<2>();
}

// @verif prop=C04,C17 id=O4.2/3 tier=off off_reason="does not fit: >1500 s even for ONE chunk (symbolic-length collect + slice::sort_unstable internals); seeded change C15-B lives here and is not caught" unwind=6 timeout=1500 bound="exactly 3 arbitrary non-empty chunks" fns="optimize_chunks"
#[kani::proof]
#[kani::unwind(6)]
fn c04_optimize_chunks_3() {
    optimize_case::<3>();
}

// ------------------------------------------------------------------------------------------------
// C04 O4.3: linear index, one inductive step from an arbitrary valid state
//
// Invariant J(idx, cur): every entry <= cur (the file offset reached so far) and for every record r
// seen so far, for every window w <= win(r.end): w < idx.len() and idx[w] <= off_r.
// One symbolic earlier record r0 witnesses the universally quantified part.

const W: usize = 1 << 14;

fn linear_step<const L: usize>() {
    let init: [u64; L] = kani::any();
    let mut idx: LinearIndex = Vec::with_capacity(8);
    let mut i = 0;
    while i < L {
        idx.push(vp(init[i]));
        i += 1;
    }
    let (e0, off0, cur): (usize, u64, u64) = kani::any();
    kani::assume(off0 <= cur);
    let has_r0 = L > 0;
    if has_r0 {
        kani::assume(e0 >= 1 && (e0 - 1) / W < L);
    }
    // assumptions over ALL windows need a real loop (only assertions can use a symbolic index)
    let mut w = 0;
    while w < L {
        kani::assume(init[w] <= cur);
        if w <= (e0 - 1) / W {
            kani::assume(init[w] <= off0); // J for r0
        }
        w += 1;
    }

    // new record r1 in file order
    let (s1, e1, off1, end1): (usize, usize, u64, u64) = kani::any();
    kani::assume(1 <= s1 && s1 <= e1 && e1 <= 4 * W);
    kani::assume(cur <= off1 && off1 < end1);
    idx.update(14, 5, pos(s1), pos(e1), Chunk::new(vp(off1), vp(end1)));

    // post: J for r1 and (still) r0, entries <= off1
    assert!(idx.len() > (e1 - 1) / W && idx.len() <= 4 && idx.len() >= L);
    let w1: usize = kani::any();
    kani::assume(w1 <= (e1 - 1) / W);
    assert!(idx[w1] <= vp(off1));
    if has_r0 {
        let w0: usize = kani::any();
        kani::assume(w0 <= (e0 - 1) / W);
        assert!(idx[w0] <= vp(off0));
    }
    // query soundness: a region starting at q overlapped by r (r.end >= q) is not pruned past r
    let q: usize = kani::any();
    kani::assume(1 <= q && q <= 4 * W);
    let m = idx.min_offset(14, 5, pos(q));
    if q <= e1 {
        assert!(m <= vp(off1));
    }
    if has_r0 && q <= e0 {
        assert!(m <= vp(off0));
    }
    kani::cover!(idx.len() > L);
    kani::cover!(L == 0 || idx.len() == L);
    std::mem::forget(idx);
}

// @verif prop=C04,C17 id=O4.3/0 tier=quick unwind=6 bound="empty linear index + one record ending in windows 0..=3 (any positions, any offsets)" fns="LinearIndex::update,LinearIndex::min_offset"
#[kani::proof]
#[kani::unwind(6)]
fn c04_linear_index_step_from_empty() {
    linear_step::<0>();
}

// @verif prop=C04,C17 id=O4.3/2 tier=quick unwind=6 bound="ARBITRARY valid 2-window linear index (invariant J, symbolic earlier record) + one record in file order ending in windows 0..=3" fns="LinearIndex::update,LinearIndex::min_offset"
#[kani::proof]
#[kani::unwind(6)]
fn c04_linear_index_step_from_2() {
    linear_step::<2>();
}

// @verif prop=C04,C17 id=O4.3/3 tier=thorough unwind=6 bound="arbitrary valid 3-window linear index + one record" fns="LinearIndex::update,LinearIndex::min_offset"
#[kani::proof]
#[kani::unwind(6)]
fn c04_linear_index_step_from_3() {
    linear_step::<3>();
}

// canary
// @verif prop=C17 id=canary tier=quick expect=fail unwind=8 bound="deliberately wrong: claims every feature lands in a leaf bin" fns="reg2bin"
#[kani::proof]
#[kani::unwind(8)]
fn c17_canary_always_leaf() {
    let (fs, fe): (usize, usize) = kani::any();
    kani::assume(1 <= fs && fs <= fe && fe <= (1 << 29) - 1);
    assert!(reg2bin(pos(fs), pos(fe), 14, 5) >= 4681);
}

// @verif prop=C04 id=canary tier=quick expect=fail unwind=6 bound="deliberately wrong: claims min_offset is an UPPER bound" fns="LinearIndex::min_offset"
#[kani::proof]
#[kani::unwind(6)]
fn c04_canary_min_offset_upper_bound() {
    let mut idx: LinearIndex = Vec::with_capacity(8);
    let (e1, off1): (usize, u64) = kani::any();
    kani::assume(1 <= e1 && e1 <= 2 * W && off1 > 0);
    idx.update(14, 5, pos(1), pos(e1), Chunk::new(vp(off1), vp(off1 + 1)));
    let q: usize = kani::any();
    kani::assume(1 <= q && q <= 4 * W);
    assert!(idx.min_offset(14, 5, pos(q)) >= vp(off1));
    std::mem::forget(idx);
}

