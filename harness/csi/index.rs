// Kani harnesses mounted inside noodles-csi/src/binning_index/index.rs (sees resolve_interval,
// max_position): the index geometry (min_shift, depth) comes from the index file header, where the
// reader accepts any value 0..=255 for both.
#![allow(unused_imports, dead_code)]

use noodles_core::{Position, region::Interval};

use super::reference_sequence::Bin;
use super::*;

pub fn stub_fmt_format(_args: std::fmt::Arguments<'_>) -> String {
    String::new()
}

// @verif prop=C15 id=O15.csi.depth tier=quick unwind=3 bound="ANY depth 0..=255 (what the CSI header reader accepts): Bin::max_id / Bin::metadata_id (called while READING the index) do not panic" fns="Bin::max_id,Bin::metadata_id,bin_limit"
#[kani::proof]
#[kani::unwind(3)]
fn c15_csi_bin_limits_for_any_header_depth() {
    let depth: u8 = kani::any();
    let a = Bin::max_id(depth);
    let b = Bin::metadata_id(depth);
    assert_eq!(b, a + 1);
}

// @verif prop=C15,C17 id=O15.csi.depth-valid tier=quick unwind=3 bound="depth 0..=9: Bin::max_id(depth) == (8^(depth+1)-1)/7 (CSIv1 bin_limit), metadata id = max_id+1" fns="Bin::max_id,Bin::metadata_id"
#[kani::proof]
#[kani::unwind(3)]
fn c17_csi_bin_limits_match_spec_for_valid_depths() {
    let depth: u8 = kani::any();
    kani::assume(depth <= 9);
    let expect = ((1u64 << (3 * (depth as u32 + 1))) - 1) / 7;
    assert_eq!(Bin::max_id(depth) as u64, expect);
    assert_eq!(Bin::metadata_id(depth) as u64, expect + 1);
}

// @verif prop=C15 id=O15.csi.geometry tier=quick unwind=3 stubs="alloc::fmt::format->empty String" bound="ANY geometry (min_shift, depth) in 0..=255 x 0..=255 and ANY closed interval: resolve_interval (the first step of every region query) returns Ok/Err, never panics" fns="binning_index::index::resolve_interval,max_position"
#[kani::proof]
#[kani::unwind(3)]
#[kani::stub(std::fmt::format, stub_fmt_format)]
fn c15_csi_resolve_interval_for_any_header_geometry() {
    let (min_shift, depth): (u8, u8) = kani::any();
    let (s, e): (usize, usize) = kani::any();
    kani::assume(1 <= s && s <= e);
    let iv: Interval = (Position::new(s).unwrap()..=Position::new(e).unwrap()).into();
    let r = resolve_interval(min_shift, depth, iv);
    std::mem::forget(r);
}

// @verif prop=C04,C17 id=O4.10 tier=quick unwind=3 stubs="alloc::fmt::format->empty String" bound="geometries with min_shift >= 1 and min_shift + 3*depth <= 62, ANY closed interval: accepted iff both ends are <= 2^(min_shift+3*depth) - 1, and then returned unchanged" fns="resolve_interval,max_position"
#[kani::proof]
#[kani::unwind(3)]
#[kani::stub(std::fmt::format, stub_fmt_format)]
fn c04_resolve_interval_accepts_exactly_positions_inside_the_geometry() {
    let (min_shift, depth): (u8, u8) = kani::any();
    kani::assume(min_shift >= 1 && (min_shift as u32) + 3 * (depth as u32) <= 62);
    let (s, e): (usize, usize) = kani::any();
    kani::assume(1 <= s && s <= e);
    let iv: Interval = (Position::new(s).unwrap()..=Position::new(e).unwrap()).into();
    let max = (1usize << (min_shift as u32 + 3 * depth as u32)) - 1;
    let r = resolve_interval(min_shift, depth, iv);
    match &r {
        Ok((a, b)) => {
            assert!(e <= max);
            assert!(usize::from(*a) == s && usize::from(*b) == e);
        }
        Err(_) => assert!(e > max),
    }
    std::mem::forget(r);
}
