// Kani harnesses mounted inside noodles-bgzf/src/io/reader.rs (sees Reader's private fields).
#![allow(unused_imports, dead_code)]

#[path = "/verif/harness/common.rs"]
mod common;
#[path = "/verif/harness/bgzf/deflate_model.rs"]
mod deflate_model;

use std::io::{self, BufRead, Read};

use self::common::*;
use super::*;
use crate::io::writer::write_frame;

const MAX_C: u64 = (1 << 48) - 1;

/// arbitrary Block state under the representation invariant
/// I: cursor <= len <= 65536, pos + size <= 2^48 - 1, size >= 26 (a block is at least a frame)
fn any_block() -> (Block, u64, u64, usize, usize) {
    let (pos, size, len, cur): (u64, u64, usize, usize) = kani::any();
    kani::assume(size >= 26 && size <= 65536);
    kani::assume(pos <= MAX_C && pos + size <= MAX_C);
    kani::assume(len <= 65536 && cur <= len);
    let mut block = Block::default();
    block.set_position(pos);
    block.set_size(size);
    block.data_mut().resize(len);
    block.data_mut().set_position(cur);
    (block, pos, size, len, cur)
}

// @verif prop=C02 id=O2.2 tier=quick unwind=3 bound="ARBITRARY valid Block state (pos,size,len<=65536,cursor<=len), any consume amount <= 2^32: one step" fns="Block::virtual_position,Data::consume,Data::has_remaining,Data::as_ref,Data::position"
#[kani::proof]
#[kani::unwind(3)]
fn c02_block_cursor_one_step_from_any_state() {
    let (mut block, pos, size, len, cur) = any_block();
    let v0 = block.virtual_position();
    // names the next unread byte: (pos, cursor) inside the block, (next block, 0) when exhausted
    if cur < len {
        assert!(v0.compressed() == pos && v0.uncompressed() as usize == cur);
    } else {
        assert!(v0.compressed() == pos + size && v0.uncompressed() == 0);
    }
    assert_eq!(block.data().as_ref().len(), len - cur);
    let n: usize = kani::any();
    kani::assume(n <= 1 << 32);
    block.data_mut().consume(n);
    // invariant preserved, cursor advanced by min(n, remaining), position never decreases
    let cur2 = block.data().position();
    assert!(cur2 <= len && cur2 == (cur + n).min(len));
    let v1 = block.virtual_position();
    assert!(v1 >= v0);
    kani::cover!(cur < len && cur2 == len);
    kani::cover!(cur2 < len && n > 0);
    std::mem::forget(block);
}

// @verif prop=C02 id=O2.4 tier=quick unwind=2 timeout=600 stubs="deflate::decode/crc32->stored-block model (unreachable)" bound="Reader whose current block (any pos/size) holds 8 symbolic bytes with the cursor at ANY offset 0..=4: read_exact(4) fast path returns exactly data[cursor..cursor+4], positions advance monotonically" fns="Reader::read_exact,Reader::consume,Reader::virtual_position,Data::as_ref"
#[kani::proof]
#[kani::unwind(2)]
#[kani::stub(crate::deflate::decode, deflate_model::decode)]
#[kani::stub(crate::deflate::crc32, deflate_model::crc32)]
fn c02_reader_read_exact_fast_path_matches_flat_model() {
    let (pos, size, cur): (u64, u64, usize) = kani::any();
    kani::assume(size >= 26 && size <= 65536 && pos <= MAX_C && pos + size <= MAX_C && cur <= 4);
    let bytes: [u8; 8] = kani::any();
    let mut block = Block::default();
    block.set_position(pos);
    block.set_size(size);
    block.data_mut().resize(8);
    block.data_mut().as_mut().copy_from_slice(&bytes);
    block.data_mut().set_position(cur);
    let mut r = Reader { inner: &b""[..], buf: Vec::new(), position: 0, block };
    let v0 = r.virtual_position();
    assert!(v0.compressed() == pos && v0.uncompressed() as usize == cur);
    let mut got = [0u8; 4];
    r.read_exact(&mut got).unwrap();
    let i: usize = kani::any();
    kani::assume(i < 4);
    assert_eq!(got[i], bytes[cur + i]);
    let v1 = r.virtual_position();
    assert!(v1 > v0);
    if cur + 4 < 8 {
        assert!(v1.compressed() == pos && v1.uncompressed() as usize == cur + 4);
    } else {
        assert!(v1.compressed() == pos + size && v1.uncompressed() == 0);
    }
    kani::cover!(cur + 4 == 8);
    std::mem::forget(r);
}

// ------------------------------------------------------------------------------------------------
// C13/C02: end of input without an EOF marker (file cut at a block boundary)

// @verif prop=C13,C02 id=O13.4 twin=twin_c13_read_large_buffer_at_end_of_input_reports_eof tier=quick unwind=3 timeout=900 stubs="deflate::decode/crc32->stored-block model (unreachable here: no input left)" bound="Reader whose inner stream is at end of input (0 bytes left: file cut at a block boundary / no EOF marker) and whose current block is an ARBITRARY exhausted block; read() with a 65536-byte buffer (direct-inflate path)" fns="Reader::read,Reader::read_block_into_buf,Reader::read_nonempty_block_with,read_frame_into"
#[kani::proof]
#[kani::unwind(3)]
#[kani::stub(crate::deflate::decode, deflate_model::decode)]
#[kani::stub(crate::deflate::crc32, deflate_model::crc32)]
fn c13_read_large_buffer_at_end_of_input_reports_eof() {
    let (mut block, _pos, _size, len, _cur) = any_block();
    block.data_mut().set_position(len); // exhausted: everything was delivered already
    let mut r = Reader { inner: &b""[..], buf: vec![0u8; 40], position: 0, block };
    let mut big = vec![0u8; 65536];
    let n = kind_of(r.read(&mut big[..]));
    // nothing is left: must be a clean end of input (never fabricated bytes)
    assert!(n == Ok(0));
    kani::cover!(len > 0);
    std::mem::forget(r);
    std::mem::forget(big);
}

// @verif prop=C13,C02 id=O13.5 tier=quick unwind=3 timeout=900 bound="same reader state; fill_buf()/read() with a small buffer at end of input" fns="Reader::fill_buf,Reader::read_block,Reader::read"
#[kani::proof]
#[kani::unwind(3)]
#[kani::stub(crate::deflate::decode, deflate_model::decode)]
#[kani::stub(crate::deflate::crc32, deflate_model::crc32)]
fn c13_fill_buf_at_end_of_input_reports_eof() {
    let (mut block, _pos, _size, len, _cur) = any_block();
    block.data_mut().set_position(len);
    let mut r = Reader { inner: &b""[..], buf: vec![0u8; 40], position: 0, block };
    let empty = match r.fill_buf() {
        Ok(b) => b.is_empty(),
        Err(e) => {
            std::mem::forget(e);
            false
        }
    };
    assert!(empty);
    std::mem::forget(r);
}

// ------------------------------------------------------------------------------------------------
// C15/C02: seek with an arbitrary (e.g. corrupt-index supplied) virtual position

// @verif prop=C15,C02 id=O15.bgzf.seek twin=twin_c15_seek_any_virtual_position_on_exhausted_stream tier=quick unwind=2 timeout=900 stubs="deflate::decode/crc32->stored-block model (unreachable)" bound="Reader over a stream with NO bytes left at the seek target (inner = empty), current block an ARBITRARY valid (stale) block; seek(ANY u64 virtual position) then fill_buf/virtual_position: no panic, and since nothing is left to read no byte may be delivered" fns="Reader::seek,Reader::read_block,Reader::read_nonempty_block_with,Reader::fill_buf,Data::set_position,Data::as_ref,Block::virtual_position"
#[kani::proof]
#[kani::unwind(2)]
#[kani::stub(crate::deflate::decode, deflate_model::decode)]
#[kani::stub(crate::deflate::crc32, deflate_model::crc32)]
fn c15_seek_any_virtual_position_on_exhausted_stream() {
    let (block, _pos, _size, _len, _cur) = any_block();
    let v: u64 = kani::any();
    let mut r = Reader { inner: Exhausted, buf: vec![0u8; 40], position: 0, block };
    let s = kind_of(r.seek(VirtualPosition::from(v)));
    if s.is_ok() {
        let n = match r.fill_buf() {
            Ok(b) => b.len(),
            Err(e) => {
                std::mem::forget(e);
                0
            }
        };
        assert_eq!(n, 0); // the stream is empty: any delivered byte would be fabricated (stale)
        let _ = r.virtual_position();
        kani::cover!(true);
    }
    std::mem::forget(r);
}

/// a seekable source with nothing left to read at any position
struct Exhausted;

impl Read for Exhausted {
    fn read(&mut self, _buf: &mut [u8]) -> io::Result<usize> {
        Ok(0)
    }
}

impl io::Seek for Exhausted {
    fn seek(&mut self, pos: io::SeekFrom) -> io::Result<u64> {
        match pos {
            io::SeekFrom::Start(n) => Ok(n),
            _ => Ok(0),
        }
    }
}

/// seekable in-memory file
struct SliceFile<'a> {
    data: &'a [u8],
    pos: usize,
}

impl Read for SliceFile<'_> {
    fn read(&mut self, buf: &mut [u8]) -> io::Result<usize> {
        let avail = self.data.len() - self.pos.min(self.data.len());
        let n = avail.min(buf.len());
        buf[..n].copy_from_slice(&self.data[self.pos..self.pos + n]);
        self.pos += n;
        Ok(n)
    }
}

impl io::Seek for SliceFile<'_> {
    fn seek(&mut self, pos: io::SeekFrom) -> io::Result<u64> {
        if let io::SeekFrom::Start(n) = pos {
            self.pos = (n as usize).min(self.data.len());
        }
        Ok(self.pos as u64)
    }
}

// @verif prop=C15,C02 id=O15.bgzf.seek2 twin=twin_c15_seek_into_block_with_any_in_block_offset tier=off off_reason="does not fit: >14 GB (read_frame_into + parse_block + error paths after seek); the F1 repair is therefore covered only by the native demo findings/F1_seek_beyond_block.rs" unwind=20 timeout=900 stubs="deflate::decode/crc32->stored-block model" bound="one-block BGZF file (2-byte payload, concrete) ; seek to block 0 with ANY in-block offset 0..=65535 (as an index may supply), then read_exact(1) and fill_buf: no panic; an accepted offset <= 2 continues with exactly the bytes from that offset" fns="Reader::seek,Reader::read_block,read_frame_into,parse_block,Data::set_position,Data::as_ref,Reader::read_exact,Reader::fill_buf"
#[kani::proof]
#[kani::unwind(20)]
#[kani::stub(crate::deflate::decode, deflate_model::decode)]
#[kani::stub(crate::deflate::crc32, deflate_model::crc32)]
fn c15_seek_into_block_with_any_in_block_offset() {
    // header + stored deflate block for b"ab" + CRC-32(b"ab") + ISIZE
    let mut file = [0u8; 33];
    {
        let cdata = [0x01, 0x02, 0x00, 0xfd, 0xff, b'a', b'b'];
        let mut sink: &mut [u8] = &mut file[..];
        write_frame(&mut sink, &cdata, deflate_model::crc32(b"ab"), 2).unwrap();
    }
    let upos: u16 = kani::any();
    let mut r = Reader { inner: SliceFile { data: &file[..], pos: 0 }, buf: vec![0u8; 40], position: 0, block: Block::default() };
    let s = kind_of(r.seek(VirtualPosition::try_from((0, upos)).unwrap()));
    if s.is_ok() {
        assert!(upos <= 2); // an offset beyond the block is not a position in this file
        let mut one = [0u8; 1];
        let e = kind_of(r.read_exact(&mut one));
        if upos < 2 {
            assert!(e.is_ok() && one[0] == if upos == 0 { b'a' } else { b'b' });
        }
        let _ = r.virtual_position();
        kani::cover!(upos == 1);
    } else {
        assert!(upos > 2);
        kani::cover!(true);
    }
    std::mem::forget(r);
}

// hand-written witness inputs (used only when Kani cannot print the solver's assignment because
// of the 64 KiB block buffer in the trace): values for each kani::any() in call order
#[test]
fn twin_c15_seek_any_virtual_position_on_exhausted_stream() {
    let vals: Vec<Vec<u8>> = vec![
        0u64.to_le_bytes().to_vec(),    // pos
        35u64.to_le_bytes().to_vec(),   // size
        7usize.to_le_bytes().to_vec(),  // len
        7usize.to_le_bytes().to_vec(),  // cur (exhausted)
        100u64.to_le_bytes().to_vec(),  // virtual position (0, 100): offset beyond the 7-byte block
    ];
    kani::concrete_playback_run(vals, c15_seek_any_virtual_position_on_exhausted_stream);
}

#[test]
fn twin_c15_seek_into_block_with_any_in_block_offset() {
    let vals: Vec<Vec<u8>> = vec![100u16.to_le_bytes().to_vec()];
    kani::concrete_playback_run(vals, c15_seek_into_block_with_any_in_block_offset);
}

#[test]
fn twin_c13_read_large_buffer_at_end_of_input_reports_eof() {
    let vals: Vec<Vec<u8>> = vec![
        0u64.to_le_bytes().to_vec(),
        35u64.to_le_bytes().to_vec(),
        7usize.to_le_bytes().to_vec(),
        7usize.to_le_bytes().to_vec(),
    ];
    kani::concrete_playback_run(vals, c13_read_large_buffer_at_end_of_input_reports_eof);
}
