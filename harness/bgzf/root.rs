// Kani harnesses mounted at the crate root of noodles-bgzf (cfg(kani) only).
#![allow(unused_imports, dead_code)]

#[path = "/verif/harness/common.rs"]
mod common;

use std::io::{self, BufRead, Read, Write};

use self::common::*;
use crate::{VirtualPosition, gzi};

// ------------------------------------------------------------------------------------------------
// C02 O2.1 virtual position pack/unpack is a bijection and Ord is lexicographic

// @verif prop=C02 id=O2.1a tier=quick bound="all (u64,u16) pairs; no loops" fns="VirtualPosition::new,VirtualPosition::try_from,compressed,uncompressed,From<VirtualPosition> for (u64,u16)"
#[kani::proof]
fn c02_vpos_bijection() {
    let c: u64 = kani::any();
    let u: u16 = kani::any();
    let a = VirtualPosition::new(c, u);
    let b = VirtualPosition::try_from((c, u));
    if c < (1u64 << 48) {
        let a = a.unwrap();
        let b = b.unwrap();
        assert_eq!(a, b);
        assert_eq!(a.compressed(), c);
        assert_eq!(a.uncompressed(), u);
        let (c2, u2): (u64, u16) = a.into();
        assert!(c2 == c && u2 == u);
        // spec: coffset << 16 | uoffset
        assert_eq!(u64::from(a), (c << 16) | u as u64);
        kani::cover!(c == (1u64 << 48) - 1 && u == u16::MAX);
    } else {
        assert!(a.is_none());
        assert!(b.is_err());
        kani::cover!(true);
    }
}

// @verif prop=C02 id=O2.1b tier=quick bound="all pairs of (u64<2^48,u16) positions; no loops" fns="VirtualPosition::cmp,VirtualPosition::from(u64)"
#[kani::proof]
fn c02_vpos_order_lexicographic() {
    let (c1, u1, c2, u2): (u64, u16, u64, u16) = kani::any();
    kani::assume(c1 < (1 << 48) && c2 < (1 << 48));
    let a = VirtualPosition::try_from((c1, u1)).unwrap();
    let b = VirtualPosition::try_from((c2, u2)).unwrap();
    assert_eq!(a.cmp(&b), (c1, u1).cmp(&(c2, u2)));
    assert_eq!(a == b, c1 == c2 && u1 == u2);
    // every u64 is a virtual position and unpacks consistently
    let raw: u64 = kani::any();
    let v = VirtualPosition::from(raw);
    assert_eq!(VirtualPosition::try_from((v.compressed(), v.uncompressed())).unwrap(), v);
    kani::cover!(c1 < c2 && u1 > u2);
}

// ------------------------------------------------------------------------------------------------
// C02 O2.3 gzi::Index::query

fn gzi_index_3(n: usize, e: [(u64, u64); 3]) -> gzi::Index {
    // concrete-length Vec construction (R1)
    match n {
        0 => gzi::Index::from(vec![]),
        1 => gzi::Index::from(vec![e[0]]),
        2 => gzi::Index::from(vec![e[0], e[1]]),
        _ => gzi::Index::from(vec![e[0], e[1], e[2]]),
    }
}

// @verif prop=C02 id=O2.3a tier=quick unwind=4 bound="strictly increasing gzi index of 0..=3 entries (any u64 values), any u64 query offset" fns="gzi::Index::query,slice::partition_point"
#[kani::proof]
#[kani::unwind(4)]
fn c02_gzi_query_matches_linear_scan() {
    let n: usize = kani::any();
    kani::assume(n <= 3);
    let e: [(u64, u64); 3] = kani::any();
    // documented shape: strictly increasing in both coordinates, first block (0,0) implicit
    let mut i = 0;
    while i < n {
        let (pc, pu) = if i == 0 { (0, 0) } else { e[i - 1] };
        kani::assume(e[i].0 > pc && e[i].1 > pu);
        i += 1;
    }
    let pos: u64 = kani::any();
    let index = gzi_index_3(n, e);
    let r = kind_of(index.query(pos));

    // oracle: last entry with u_k <= pos, linear scan
    let (mut oc, mut ou) = (0u64, 0u64);
    let mut i = 0;
    while i < n {
        if e[i].1 <= pos {
            oc = e[i].0;
            ou = e[i].1;
        }
        i += 1;
    }
    let off = pos - ou;
    match r {
        Ok(v) => {
            assert!(off <= u16::MAX as u64 && oc < (1 << 48));
            assert_eq!(v.compressed(), oc);
            assert_eq!(v.uncompressed() as u64, off);
            kani::cover!(n == 3 && ou == e[1].1);
        }
        Err(k) => {
            assert!(off > u16::MAX as u64 || oc >= (1 << 48));
            assert!(k == io::ErrorKind::InvalidData);
            kani::cover!(true);
        }
    }
    std::mem::forget(index);
}

// @verif prop=C15 id=O15.gzi tier=quick unwind=4 bound="ARBITRARY (unsorted) gzi index of 0..=3 entries, any u64 query offset: no panic" fns="gzi::Index::query"
#[kani::proof]
#[kani::unwind(4)]
fn c15_gzi_query_arbitrary_index_no_panic() {
    let n: usize = kani::any();
    kani::assume(n <= 3);
    let e: [(u64, u64); 3] = kani::any();
    let pos: u64 = kani::any();
    let index = gzi_index_3(n, e);
    let r = kind_of(index.query(pos));
    kani::cover!(r.is_ok() && n == 3);
    kani::cover!(r.is_err());
    std::mem::forget(index);
}

// ------------------------------------------------------------------------------------------------
// C12 O12.1 default_read_exact under adversarial chunking

fn read_exact_case<const L: usize, const W: usize>(interrupts: u8) {
    let data: [u8; L] = kani::any();
    let mut want = [0u8; W];
    let mut src = Chunky::new(&data, interrupts);
    let r = kind_of(crate::io::reader::default_read_exact(&mut src, &mut want));
    if W <= L {
        assert!(r.is_ok());
        let i: usize = kani::any();
        kani::assume(i < W);
        assert_eq!(want[i], data[i]);
        assert_eq!(src.pos, W);
    } else {
        // a short read is never mistaken for success; EOF only after all bytes were delivered
        assert!(r == Err(io::ErrorKind::UnexpectedEof));
        assert_eq!(src.pos, L);
    }
    kani::cover!(L < 2 || src.calls > 2);
}

// @verif prop=C12 id=O12.1a tier=quick unwind=7 bound="5-byte stream, want 4 bytes; EVERY partition into short reads (no Interrupted)" fns="bgzf::io::reader::default_read_exact"
#[kani::proof]
#[kani::unwind(7)]
fn c12_default_read_exact_any_partition() {
    read_exact_case::<5, 4>(0);
}

// @verif prop=C12 id=O12.1b tier=quick unwind=7 bound="2-byte stream, want 4 bytes (premature EOF); every partition (no Interrupted)" fns="bgzf::io::reader::default_read_exact"
#[kani::proof]
#[kani::unwind(7)]
fn c12_default_read_exact_short_stream() {
    read_exact_case::<2, 4>(0);
}

// @verif prop=C12 id=O12.1c tier=quick unwind=7 bound="3-byte stream, want 3 bytes; every partition and <=1 Interrupted at any call" fns="bgzf::io::reader::default_read_exact"
#[kani::proof]
#[kani::unwind(7)]
fn c12_default_read_exact_interrupted() {
    read_exact_case::<3, 3>(1);
}

// @verif prop=C12 id=O12.1e tier=thorough unwind=10 bound="8-byte stream, want 7 bytes; every partition (no Interrupted)" fns="bgzf::io::reader::default_read_exact"
#[kani::proof]
#[kani::unwind(10)]
fn c12_default_read_exact_8_7() {
    read_exact_case::<8, 7>(0);
}

// @verif prop=C12 id=O12.1f tier=thorough unwind=8 bound="1-byte stream, want 6 bytes (premature EOF); every partition" fns="bgzf::io::reader::default_read_exact"
#[kani::proof]
#[kani::unwind(8)]
fn c12_default_read_exact_1_6() {
    read_exact_case::<1, 6>(0);
}

// @verif prop=C12 id=O12.1d tier=thorough unwind=10 bound="6-byte stream, want 6 bytes; every partition, <=2 Interrupted" fns="bgzf::io::reader::default_read_exact"
#[kani::proof]
#[kani::unwind(10)]
fn c12_default_read_exact_6_two_interrupts() {
    read_exact_case::<6, 6>(2);
}

// ------------------------------------------------------------------------------------------------
// canaries: must come back FAILED (pipeline can see a violation)

// @verif prop=C02 id=canary tier=quick expect=fail bound="deliberately wrong: claims uncompressed() is 15 bits" fns="VirtualPosition"
#[kani::proof]
fn c02_canary_wrong_mask() {
    let c: u64 = kani::any();
    let u: u16 = kani::any();
    kani::assume(c < (1 << 48));
    let a = VirtualPosition::try_from((c, u)).unwrap();
    assert!(a.uncompressed() < 0x8000);
}
