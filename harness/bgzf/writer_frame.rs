// Kani harnesses mounted inside noodles-bgzf/src/io/writer/frame.rs (sees its private fns).
#![allow(unused_imports, dead_code)]

#[path = "/verif/harness/common.rs"]
mod common;

use std::io::{self, Write};

use self::common::*;
use super::*;

// @verif prop=C01 id=O1.1/big tier=quick unwind=3 bound="block size 18+n+8 for symbolic n in 65500..=65530, i.e. both sides of the 65536-byte member limit" fns="write_frame,write_header"
#[kani::proof]
#[kani::unwind(3)]
fn c01_frame_size_limit() {
    let n: usize = kani::any();
    kani::assume(n >= 65500 && n <= 65530);
    let mut out = [0u8; 32];
    let mut sink: &mut [u8] = &mut out[..];
    // the header is written first; an oversized member must be rejected, not emitted with a wrapped BSIZE
    let r = kind_of(write_header(&mut sink, 18 + n + 8));
    if 18 + n + 8 > 65536 {
        assert!(r == Err(io::ErrorKind::InvalidInput));
    } else {
        assert!(r.is_ok());
        assert_eq!((out[16] as usize) | ((out[17] as usize) << 8), 18 + n + 8 - 1);
        kani::cover!(n == 65510);
    }
}


// ------------------------------------------------------------------------------------------------
// C14 O14.1: write_frame against a nondeterministic sink (fault dimensions in separate harnesses)

fn frame_bytes_ok(out: &[u8], cdata: &[u8; 2], crc: u32, isz: u32) {
    assert_eq!(out.len(), 28);
    assert!(out[0] == 31 && out[1] == 139 && out[2] == 8 && out[3] == 4 && out[12] == 66 && out[13] == 67);
    assert!(out[16] == 27 && out[17] == 0);
    assert!(out[18] == cdata[0] && out[19] == cdata[1]);
    assert_eq!(u32::from_le_bytes([out[20], out[21], out[22], out[23]]), crc);
    assert_eq!(u32::from_le_bytes([out[24], out[25], out[26], out[27]]), isz);
}

fn fail_case(k: u32) {
    let cdata: [u8; 2] = kani::any();
    let (crc, isz): (u32, u32) = kani::any();
    let mut sink = FaultySink::<32>::new(Faults { fail_at: k, ..Faults::NONE });
    let r = kind_of(write_frame(&mut sink, &cdata, crc, isz as usize));
    if sink.failed {
        assert!(r.is_err()); // never swallowed
    } else {
        assert!(r == Ok(28));
        frame_bytes_ok(sink.written(), &cdata, crc, isz);
    }
    // a frame is 14 write_all calls (11 header, 1 cdata, 2 trailer): indices 0..=13 fail, later ones never trigger
    assert_eq!(sink.failed, k <= 13);
}

macro_rules! fail_harness {
    ($name:ident, $($k:expr),+) => {
        #[kani::proof]
        #[kani::unwind(3)]
        fn $name() {
            $( fail_case($k); )+
        }
    };
}

// @verif prop=C14 id=O14.1a/0-3 tier=quick harness=c14_write_frame_fail_at_0_3 unwind=3 bound="one frame with 2-byte symbolic cdata/crc/isize (14 sink calls); sink fails permanently at call 0,1,2,3 (one run each)" fns="write_frame,write_header,write_trailer,write_u8,write_u16_le,write_u32_le"
fail_harness!(c14_write_frame_fail_at_0_3, 0, 1, 2, 3);
// @verif prop=C14 id=O14.1a/4-7 tier=quick harness=c14_write_frame_fail_at_4_7 unwind=3 bound="same; sink fails at call 4,5,6,7" fns="write_frame"
fail_harness!(c14_write_frame_fail_at_4_7, 4, 5, 6, 7);
// @verif prop=C14 id=O14.1a/8-11 tier=quick harness=c14_write_frame_fail_at_8_11 unwind=3 bound="same; sink fails at call 8,9,10,11" fns="write_frame"
fail_harness!(c14_write_frame_fail_at_8_11, 8, 9, 10, 11);
// @verif prop=C14 id=O14.1a/12-15 tier=quick harness=c14_write_frame_fail_at_12_15 unwind=3 bound="same; sink fails at call 12,13 and 14,15 (= never reached)" fns="write_frame"
fail_harness!(c14_write_frame_fail_at_12_15, 12, 13, 14, 15);

fn short_case(k: u32) {
    let cdata: [u8; 2] = kani::any();
    let (crc, isz): (u32, u32) = kani::any();
    let mut sink = FaultySink::<32>::new(Faults { short_at: k, ..Faults::NONE });
    let r = kind_of(write_frame(&mut sink, &cdata, crc, isz as usize));
    assert!(r == Ok(28));
    frame_bytes_ok(sink.written(), &cdata, crc, isz); // byte-identical to the fault-free output
}

macro_rules! short_harness {
    ($name:ident, $k:expr) => {
        #[kani::proof]
        #[kani::unwind(4)]
        fn $name() {
            short_case($k);
        }
    };
}
// @verif prop=C14 id=O14.1b/magic tier=quick harness=c14_write_frame_short_write_magic unwind=4 bound="same frame; sink call 0 (2-byte magic) accepts only 1 byte: output byte-identical" fns="write_frame,Write::write_all"
short_harness!(c14_write_frame_short_write_magic, 0);
// @verif prop=C14 id=O14.1b/cdata tier=quick harness=c14_write_frame_short_write_cdata unwind=4 bound="same frame; sink call 11 (cdata) accepts only 1 byte" fns="write_frame,Write::write_all"
short_harness!(c14_write_frame_short_write_cdata, 11);
// @verif prop=C14 id=O14.1b/crc tier=quick harness=c14_write_frame_short_write_crc unwind=4 bound="same frame; sink call 12 (CRC32, first trailer word) accepts only 1 byte" fns="write_frame,write_trailer,Write::write_all"
short_harness!(c14_write_frame_short_write_crc, 12);
// @verif prop=C14 id=O14.1b/isize tier=quick harness=c14_write_frame_short_write_isize unwind=4 bound="same frame; sink call 13 (ISIZE) accepts only 1 byte" fns="write_frame,Write::write_all"
short_harness!(c14_write_frame_short_write_isize, 13);

fn interrupt_case(k: u32) {
    let cdata: [u8; 2] = kani::any();
    let (crc, isz): (u32, u32) = kani::any();
    let mut sink = FaultySink::<32>::new(Faults { interrupt_at: k, ..Faults::NONE });
    let r = kind_of(write_frame(&mut sink, &cdata, crc, isz as usize));
    assert!(r == Ok(28));
    assert!(sink.interrupted);
    frame_bytes_ok(sink.written(), &cdata, crc, isz);
}

macro_rules! interrupt_harness {
    ($name:ident, $k:expr) => {
        #[kani::proof]
        #[kani::unwind(4)]
        fn $name() {
            interrupt_case($k);
        }
    };
}
// @verif prop=C14 id=O14.1c/12 tier=quick harness=c14_write_frame_interrupted_at_12 unwind=4 bound="same; Interrupted at call 12 (first trailer word)" fns="write_frame,write_trailer,Write::write_all"
interrupt_harness!(c14_write_frame_interrupted_at_12, 12);
// @verif prop=C14 id=O14.1c/11 tier=quick harness=c14_write_frame_interrupted_at_11 unwind=4 bound="same; Interrupted at call 11 (cdata)" fns="write_frame,Write::write_all"
interrupt_harness!(c14_write_frame_interrupted_at_11, 11);
