// Kani harnesses mounted inside noodles-bgzf/src/io/writer.rs (sees Writer's private fields).
#![allow(unused_imports, dead_code)]

#[path = "/verif/harness/common.rs"]
mod common;
#[path = "/verif/harness/bgzf/deflate_model.rs"]
mod deflate_model;

use std::io::{self, Write};

use self::common::*;
use super::*;

/// Independent check of ONE BGZF member at a known place: `b` must be exactly a member whose
/// payload is `payload`, carried as a stored deflate block (or the empty fixed block when the
/// payload is empty). Every header/trailer field of RFC 1952 / SAM spec 4.1 is checked, incl.
/// BSIZE, CRC-32 (bitwise reference) and ISIZE. No noodles code is used.
fn check_member<const P: usize>(b: &[u8], payload: &[u8; P]) {
    let clen = if P == 0 { 2 } else { 5 + P };
    assert_eq!(b.len(), 18 + clen + 8);
    assert!(b[0] == 31 && b[1] == 139 && b[2] == 8 && b[3] == 4); // ID1 ID2 CM FLG=FEXTRA
    assert!(b[4] == 0 && b[5] == 0 && b[6] == 0 && b[7] == 0); // MTIME
    assert!(b[10] == 6 && b[11] == 0); // XLEN
    assert!(b[12] == 66 && b[13] == 67 && b[14] == 2 && b[15] == 0); // 'B' 'C' SLEN=2
    let bsize = (b[16] as usize) | ((b[17] as usize) << 8);
    assert_eq!(bsize + 1, b.len()); // BSIZE = total block size - 1
    assert!(b.len() <= 65536);
    if P == 0 {
        assert!(b[18] == 3 && b[19] == 0);
    } else {
        assert!(b[18] == 1); // BFINAL=1, BTYPE=00
        let len = (b[19] as usize) | ((b[20] as usize) << 8);
        let nlen = (b[21] as usize) | ((b[22] as usize) << 8);
        assert!(len == P && nlen == (!P & 0xffff));
        let i: usize = kani::any();
        kani::assume(i < P);
        assert_eq!(b[23 + i], payload[i]);
    }
    let t = 18 + clen;
    let crc = u32::from_le_bytes([b[t], b[t + 1], b[t + 2], b[t + 3]]);
    let isize = u32::from_le_bytes([b[t + 4], b[t + 5], b[t + 6], b[t + 7]]) as usize;
    assert_eq!(isize, P);
    assert_eq!(crc, crc32_bitwise(payload));
}

const fn member_len(p: usize) -> usize {
    if p == 0 { 28 } else { 18 + 5 + p + 8 }
}

fn check_eof(b: &[u8]) {
    check_member::<0>(b, &[]);
    let j: usize = kani::any();
    kani::assume(j < 28);
    assert_eq!(b[j], BGZF_EOF[j]);
}

const SINK: usize = 128;

// ------------------------------------------------------------------------------------------------
// C01 O1.4 / C02 O2.6 / C14 O14.2: real Writer over a slice sink, stored-block deflate model

// @verif prop=C01,C02 id=O1.4a tier=thorough unwind=12 timeout=1801 stubs="deflate::encode->stored-block model (exact CRC-32)" bound="3 symbolic payload bytes written as write(2);flush;write(1);finish  -- concrete call sequence, symbolic contents and compression level" fns="Writer::write,Writer::flush,Writer::flush_block,Writer::try_finish,Writer::finish,Writer::virtual_position,Writer::position,write_frame"
#[kani::proof]
#[kani::unwind(12)]
#[kani::stub(crate::deflate::encode, deflate_model::encode)]
fn c01_writer_write_flush_write_finish() {
    let payload: [u8; 3] = kani::any();
    let level: u8 = kani::any();
    kani::assume(level <= 9);
    let mut sink = SliceSink::<SINK>::new();
    {
        let mut w = Builder::default()
            .set_compression_level(CompressionLevel::new(level).unwrap())
            .build_from_writer(&mut sink);
        // O2.6: virtual_position() == (bytes emitted, staged bytes)
        assert_eq!(u64::from(w.virtual_position()), 0);
        assert_eq!(w.write(&payload[..2]).unwrap(), 2);
        assert_eq!(u64::from(w.virtual_position()), 2);
        w.flush().unwrap();
        let emitted = w.get_ref().len as u64;
        assert_eq!(w.position(), emitted);
        assert_eq!(u64::from(w.virtual_position()), emitted << 16);
        assert_eq!(w.write(&payload[2..]).unwrap(), 1);
        assert_eq!(u64::from(w.virtual_position()), (emitted << 16) | 1);
        let s = w.finish().unwrap();
        let _ = s;
    }
    let out = sink.written();
    assert_eq!(out.len(), member_len(2) + member_len(1) + 28);
    check_member::<2>(&out[..member_len(2)], &[payload[0], payload[1]]);
    check_member::<1>(&out[member_len(2)..member_len(2) + member_len(1)], &[payload[2]]);
    check_eof(&out[member_len(2) + member_len(1)..]);
}

// @verif prop=C01,C14 id=O1.4b tier=quick unwind=12 timeout=900 stubs="deflate::encode->stored-block model" bound="2 symbolic payload bytes, write(2) then DROP without finish" fns="Writer::write,<Writer as Drop>::drop,Writer::try_finish"
#[kani::proof]
#[kani::unwind(12)]
#[kani::stub(crate::deflate::encode, deflate_model::encode)]
fn c01_writer_drop_emits_staged_data_and_eof() {
    let payload: [u8; 2] = kani::any();
    let mut sink = SliceSink::<SINK>::new();
    {
        let mut w = Writer::new(&mut sink);
        assert_eq!(w.write(&payload).unwrap(), 2);
        // dropped here
    }
    let out = sink.written();
    assert_eq!(out.len(), member_len(2) + 28);
    check_member::<2>(&out[..member_len(2)], &payload);
    check_eof(&out[member_len(2)..]);
}

// @verif prop=C01,C14 id=O1.4c tier=quick unwind=12 timeout=900 stubs="deflate::encode->stored-block model" bound="histories with nothing staged at drop: (a) no write at all, (b) write(1);flush;drop -- symbolic choice" fns="<Writer as Drop>::drop,Writer::try_finish,Writer::flush"
#[kani::proof]
#[kani::unwind(12)]
#[kani::stub(crate::deflate::encode, deflate_model::encode)]
fn c01_writer_drop_with_empty_staging_still_writes_eof() {
    let payload: [u8; 1] = kani::any();
    let mut sink = SliceSink::<SINK>::new();
    if kani::any() {
        {
            let _w = Writer::new(&mut sink);
        }
        let out = sink.written();
        assert_eq!(out.len(), 28);
        check_eof(out);
    } else {
        {
            let mut w = Writer::new(&mut sink);
            assert_eq!(w.write(&payload).unwrap(), 1);
            w.flush().unwrap();
        }
        let out = sink.written();
        assert_eq!(out.len(), member_len(1) + 28);
        check_member::<1>(&out[..member_len(1)], &payload);
        check_eof(&out[member_len(1)..]);
    }
}

// @verif prop=C01 id=O1.4d tier=thorough unwind=12 timeout=1800 stubs="deflate::encode->stored-block model" bound="try_finish then drop: EOF marker written exactly once by finish(); into_inner() after try_finish does not write again" fns="Writer::try_finish,Writer::into_inner,<Writer as Drop>::drop"
#[kani::proof]
#[kani::unwind(12)]
#[kani::stub(crate::deflate::encode, deflate_model::encode)]
fn c01_writer_finish_writes_single_eof() {
    let payload: [u8; 1] = kani::any();
    let mut sink = SliceSink::<SINK>::new();
    {
        let mut w = Writer::new(&mut sink);
        assert_eq!(w.write(&payload).unwrap(), 1);
        let s = w.finish().unwrap(); // consumes the writer; its Drop must not emit a second EOF
        let _ = s;
    }
    let out = sink.written();
    assert_eq!(out.len(), member_len(1) + 28);
    check_member::<1>(&out[..member_len(1)], &payload);
    check_eof(&out[member_len(1)..]);
}

// ------------------------------------------------------------------------------------------------
// staging boundary: the buffer is flushed exactly when it reaches MAX_BUF_SIZE (arithmetic only:
// the staging Vec's *length* is set directly, contents are irrelevant for the arithmetic)

// @verif prop=C01 id=O1.4e tier=quick unwind=3 bound="arbitrary staged length 0..=65495 and arbitrary incoming buffer length: remaining()/has_remaining()/amt arithmetic of Writer::write" fns="Writer::remaining,Writer::has_remaining"
#[kani::proof]
#[kani::unwind(3)]
fn c01_writer_staging_arithmetic() {
    let staged: usize = kani::any();
    kani::assume(staged <= MAX_BUF_SIZE);
    let mut sink = SliceSink::<8>::new();
    let mut w = Writer::new(&mut sink);
    // SAFETY (harness): capacity is MAX_BUF_SIZE (Builder), u8 needs no initialisation to have a length
    unsafe { w.staging_buf.set_len(staged) };
    let incoming: usize = kani::any();
    let amt = w.remaining().min(incoming);
    assert!(staged + amt <= MAX_BUF_SIZE); // never stages more than one block can hold
    assert_eq!(w.has_remaining(), staged < MAX_BUF_SIZE);
    // progress: a non-empty write into a non-full buffer consumes at least one byte
    if incoming > 0 && staged < MAX_BUF_SIZE {
        assert!(amt >= 1);
    }
    // a full buffer is flushed by write() itself, so write() never returns Ok(0) for non-empty input forever
    assert_eq!(staged + amt == MAX_BUF_SIZE, !(staged + amt < MAX_BUF_SIZE));
    assert_eq!(MAX_BUF_SIZE, 65495);
    unsafe { w.staging_buf.set_len(0) };
    w.inner = None; // skip Drop's try_finish
    std::mem::forget(w);
}

// ------------------------------------------------------------------------------------------------
// C14 O14.2: a failing sink is surfaced (concrete fault index per run; see common.rs Faults)

fn writer_fail_case(fail_at: u32) {
    let payload: [u8; 2] = kani::any();
    let mut sink = FaultySink::<SINK>::new(Faults { fail_at, ..Faults::NONE });
    let all_ok;
    {
        let mut w = Writer::new(&mut sink);
        let r1 = kind_of(w.write(&payload[..1]));
        let r2 = kind_of(w.flush());
        let r3 = kind_of(w.write(&payload[1..]));
        let r4 = kind_of(w.try_finish());
        all_ok = r1.is_ok() && r2.is_ok() && r3.is_ok() && r4.is_ok();
        w.inner = None; // finished explicitly above; skip Drop
        std::mem::forget(w);
    }
    if sink.failed {
        assert!(!all_ok); // some call reported the failure
    }
    if all_ok {
        assert!(!sink.failed);
        let out = sink.written();
        assert_eq!(out.len(), 2 * member_len(1) + 28);
        check_member::<1>(&out[..member_len(1)], &[payload[0]]);
        check_member::<1>(&out[member_len(1)..2 * member_len(1)], &[payload[1]]);
        check_eof(&out[2 * member_len(1)..]);
    }
    // 14 sink calls per data frame, 1 for the EOF marker
    assert_eq!(sink.failed, fail_at <= 28);
}

macro_rules! writer_fail_harness {
    ($name:ident, $($k:expr),+) => {
        #[kani::proof]
        #[kani::unwind(12)]
        #[kani::stub(crate::deflate::encode, deflate_model::encode)]
        fn $name() {
            $( writer_fail_case($k); )+
        }
    };
}

// @verif prop=C14 id=O14.2a/first tier=thorough harness=c14_writer_sink_fails_in_first_frame unwind=12 timeout=2400 stubs="deflate::encode->stored-block model" bound="write(1);flush;write(1);try_finish, 2 symbolic payload bytes; sink fails permanently at sink call 0, 7 or 13 (first data frame)" fns="Writer::write,Writer::flush,Writer::try_finish,write_frame"
writer_fail_harness!(c14_writer_sink_fails_in_first_frame, 0, 7, 13);
// @verif prop=C14 id=O14.2a/second tier=thorough harness=c14_writer_sink_fails_in_second_frame unwind=12 timeout=2400 stubs="deflate::encode->stored-block model" bound="same; sink fails at call 14 or 27 (second data frame, flushed by try_finish)" fns="Writer::try_finish,Writer::flush_block"
writer_fail_harness!(c14_writer_sink_fails_in_second_frame, 14, 27);
// @verif prop=C14 id=O14.2a/eof tier=thorough harness=c14_writer_sink_fails_at_eof_marker unwind=12 timeout=1200 stubs="deflate::encode->stored-block model" bound="same; sink fails at call 28 (the EOF marker write) or never (29)" fns="Writer::try_finish"
writer_fail_harness!(c14_writer_sink_fails_at_eof_marker, 28, 29);

// @verif prop=C14 id=O14.2b tier=off off_reason="does not fit: >2400 s" unwind=12 timeout=2400 stubs="deflate::encode->stored-block model" bound="write(2);finish; the sink call carrying the cdata (11) or the EOF marker (14) accepts only 1 byte" fns="Writer::write,Writer::finish,write_frame,Write::write_all"
#[kani::proof]
#[kani::unwind(12)]
#[kani::stub(crate::deflate::encode, deflate_model::encode)]
fn c14_writer_tolerates_short_writes() {
    let short_at: u32 = if kani::any() { 11 } else { 14 };
    let payload: [u8; 2] = kani::any();
    let mut sink = FaultySink::<SINK>::new(Faults { short_at, ..Faults::NONE });
    {
        let mut w = Writer::new(&mut sink);
        assert_eq!(w.write(&payload).unwrap(), 2);
        let s = w.finish().unwrap();
        let _ = s;
    }
    assert!(sink.shorted);
    let out = sink.written();
    assert_eq!(out.len(), member_len(2) + 28); // byte-identical to the fault-free output
    check_member::<2>(&out[..member_len(2)], &payload);
    check_eof(&out[member_len(2)..]);
}

// canary: the pipeline must notice a writer that loses the EOF marker
// @verif prop=C14 id=canary tier=quick expect=fail unwind=12 stubs="deflate::encode->stored-block model" bound="deliberately wrong: claims the file has no EOF member" fns="Writer"
#[kani::proof]
#[kani::unwind(12)]
#[kani::stub(crate::deflate::encode, deflate_model::encode)]
fn c14_canary_no_eof() {
    let payload: [u8; 1] = kani::any();
    let mut sink = SliceSink::<SINK>::new();
    {
        let mut w = Writer::new(&mut sink);
        let _ = w.write(&payload).unwrap();
    }
    assert_eq!(sink.len, 26 + 5 + 1);
}
