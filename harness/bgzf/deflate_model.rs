// Native-faithful DEFLATE/CRC model (DESIGN R9): stored blocks only.
//
// `encode` emits a genuine RFC 1951 stored block (BFINAL=1, BTYPE=00, LEN, ~LEN, raw bytes) -- a
// valid DEFLATE stream that the real zlib-rs inflates to the same bytes -- or, for empty input, the
// 2-byte empty fixed-Huffman block `03 00` zlib itself emits (and BGZF_EOF carries).
// `decode` parses exactly these two forms; anything else is InvalidData (the real inflater accepts
// more streams; harness assertions never depend on a rejection of those).
// `crc32` is the exact bitwise CRC-32.
#![allow(dead_code)]

use std::io;

pub fn crc32(src: &[u8]) -> u32 {
    let mut crc: u32 = 0xffff_ffff;
    let mut i = 0;
    while i < src.len() {
        crc ^= src[i] as u32;
        let mut k = 0;
        while k < 8 {
            let mask = (crc & 1).wrapping_neg();
            crc = (crc >> 1) ^ (0xedb8_8320 & mask);
            k += 1;
        }
        i += 1;
    }
    !crc
}

pub fn encode(src: &[u8], _compression_level: i32, dst: &mut Vec<u8>) -> io::Result<u32> {
    if src.is_empty() {
        dst.resize(2, 0);
        dst[0] = 0x03;
        dst[1] = 0x00;
    } else {
        let len = src.len() as u16; // callers stage at most 65495 bytes
        let [l0, l1] = len.to_le_bytes();
        dst.resize(5 + src.len(), 0);
        dst[0] = 0x01;
        dst[1] = l0;
        dst[2] = l1;
        dst[3] = !l0;
        dst[4] = !l1;
        let mut i = 0;
        while i < src.len() {
            dst[5 + i] = src[i];
            i += 1;
        }
    }
    Ok(crc32(src))
}

pub fn decode(src: &[u8], dst: &mut [u8]) -> io::Result<()> {
    if src.len() == 2 && src[0] == 0x03 && src[1] == 0x00 && dst.is_empty() {
        return Ok(());
    }
    if src.len() < 5 || src[0] != 0x01 {
        return Err(io::Error::from(io::ErrorKind::InvalidData));
    }
    let len = u16::from_le_bytes([src[1], src[2]]);
    let nlen = u16::from_le_bytes([src[3], src[4]]);
    if len != !nlen || usize::from(len) != dst.len() || src.len() != 5 + dst.len() {
        return Err(io::Error::from(io::ErrorKind::InvalidData));
    }
    let mut i = 0;
    while i < dst.len() {
        dst[i] = src[5 + i];
        i += 1;
    }
    Ok(())
}
