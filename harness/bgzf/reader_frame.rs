// Kani harnesses mounted inside noodles-bgzf/src/io/reader/frame.rs (sees its private fns).
#![allow(unused_imports, dead_code)]

#[path = "/verif/harness/common.rs"]
mod common;
#[path = "/verif/harness/bgzf/deflate_model.rs"]
mod deflate_model;

use std::io::{self, Read};

use self::common::*;
use super::*;
use crate::io::writer::{BGZF_EOF, write_frame};

const FRAME_MAX: usize = 64;

/// Independent BGZF member parser written from RFC 1952 + SAM spec 4.1 (no noodles code).
/// Returns (total member size, cdata offset, cdata len, crc32, isize).
fn spec_parse(b: &[u8]) -> Option<(usize, usize, usize, u32, u32)> {
    if b.len() < 18 {
        return None;
    }
    let fixed = b[0] == 31 && b[1] == 139 && b[2] == 8 && b[3] == 4 // ID1 ID2 CM FLG.FEXTRA
        && b[10] == 6 && b[11] == 0 // XLEN = 6
        && b[12] == 66 && b[13] == 67 // SI1 SI2 = 'B','C'
        && b[14] == 2 && b[15] == 0; // SLEN = 2
    if !fixed {
        return None;
    }
    let bsize = (b[16] as usize) | ((b[17] as usize) << 8);
    let total = bsize + 1;
    if total < 26 || total > b.len() {
        return None;
    }
    let clen = bsize - 6 - 19; // spec: CDATA is BSIZE - XLEN - 19 bytes
    let t = 18 + clen;
    let crc = u32::from_le_bytes([b[t], b[t + 1], b[t + 2], b[t + 3]]);
    let isize = u32::from_le_bytes([b[t + 4], b[t + 5], b[t + 6], b[t + 7]]);
    Some((total, 18, clen, crc, isize))
}

fn frame_roundtrip<const N: usize>() {
    let cdata: [u8; N] = kani::any();
    let crc: u32 = kani::any();
    let usize_: usize = kani::any();
    let mut out = [0u8; FRAME_MAX];
    let mut sink: &mut [u8] = &mut out[..];
    let r = kind_of(write_frame(&mut sink, &cdata, crc, usize_));
    let written = FRAME_MAX - sink.len();
    if usize_ > u32::MAX as usize {
        assert!(r == Err(io::ErrorKind::InvalidInput));
        return;
    }
    let total = r.unwrap();
    assert_eq!(total, 26 + N);
    assert_eq!(written, total);
    // O1.1 byte-exact against the spec parser
    let (t2, off, clen, crc2, isize2) = spec_parse(&out[..written]).unwrap();
    assert!(t2 == total && clen == N && crc2 == crc && isize2 as usize == usize_);
    assert!(out[4] == 0 && out[5] == 0 && out[6] == 0 && out[7] == 0); // MTIME 0
    let i: usize = if N == 0 { 0 } else { kani::any() }; // universally quantified index instead of a loop
    if N > 0 {
        kani::assume(i < N);
        assert_eq!(out[off + i], cdata[i]);
    }
    // O1.2 real reader-side parser is the inverse
    let p = parse_frame(&out[..written]);
    if usize_ <= 65536 {
        let (bs, cd, c, isz) = p.unwrap();
        assert!(bs == total as u64 && c == crc && isz == usize_ && cd.len() == N);
        if N > 0 {
            assert_eq!(cd[i], cdata[i]);
        }
        kani::cover!(usize_ == 65536);
    } else {
        assert!(p.is_err());
        std::mem::forget(p);
        kani::cover!(true);
    }
}

macro_rules! frame_roundtrip_harness {
    ($name:ident, $n:expr) => {
        #[kani::proof]
        #[kani::unwind(3)]
        fn $name() {
            frame_roundtrip::<$n>();
        }
    };
}

// @verif prop=C01 id=O1.1+O1.2/1 tier=quick harness=c01_frame_write_parse_inverse_1 unwind=3 bound="cdata length 1, symbolic bytes/crc/isize (all usize)" fns="write_frame,write_header,write_trailer,parse_frame,split_frame,parse_header,parse_trailer"
frame_roundtrip_harness!(c01_frame_write_parse_inverse_1, 1);
// @verif prop=C01 id=O1.1+O1.2/2 tier=quick harness=c01_frame_write_parse_inverse_2 unwind=3 bound="cdata length 2, symbolic bytes/crc/isize" fns="write_frame,parse_frame"
frame_roundtrip_harness!(c01_frame_write_parse_inverse_2, 2);
// @verif prop=C01 id=O1.1+O1.2/7 tier=quick harness=c01_frame_write_parse_inverse_7 unwind=3 bound="cdata length 7, symbolic bytes/crc/isize" fns="write_frame,parse_frame"
frame_roundtrip_harness!(c01_frame_write_parse_inverse_7, 7);
// @verif prop=C01 id=O1.1+O1.2/0 tier=thorough harness=c01_frame_write_parse_inverse_0 unwind=3 bound="cdata length 0" fns="write_frame,parse_frame"
frame_roundtrip_harness!(c01_frame_write_parse_inverse_0, 0);
// @verif prop=C01 id=O1.1+O1.2/3 tier=thorough harness=c01_frame_write_parse_inverse_3 unwind=3 bound="cdata length 3" fns="write_frame,parse_frame"
frame_roundtrip_harness!(c01_frame_write_parse_inverse_3, 3);
// @verif prop=C01 id=O1.1+O1.2/5 tier=thorough harness=c01_frame_write_parse_inverse_5 unwind=3 bound="cdata length 5" fns="write_frame,parse_frame"
frame_roundtrip_harness!(c01_frame_write_parse_inverse_5, 5);
// @verif prop=C01 id=O1.1+O1.2/16 tier=thorough harness=c01_frame_write_parse_inverse_16 unwind=3 bound="cdata length 16" fns="write_frame,parse_frame"
frame_roundtrip_harness!(c01_frame_write_parse_inverse_16, 16);
// @verif prop=C01 id=O1.1+O1.2/30 tier=thorough harness=c01_frame_write_parse_inverse_30 unwind=3 bound="cdata length 30, symbolic bytes/crc/isize" fns="write_frame,parse_frame"
frame_roundtrip_harness!(c01_frame_write_parse_inverse_30, 30);

// @verif prop=C01 id=O1.2c tier=quick unwind=3 bound="the constant BGZF_EOF; no symbolic input" fns="parse_frame,BGZF_EOF,write_frame"
#[kani::proof]
#[kani::unwind(3)]
fn c01_eof_marker_is_a_valid_empty_frame() {
    assert_eq!(BGZF_EOF.len(), 28);
    let (bs, cd, crc, isz) = parse_frame(&BGZF_EOF).unwrap();
    assert!(bs == 28 && crc == 0 && isz == 0 && cd.len() == 2 && cd[0] == 3 && cd[1] == 0);
    let (t, _, clen, c2, i2) = spec_parse(&BGZF_EOF).unwrap();
    assert!(t == 28 && clen == 2 && c2 == 0 && i2 == 0);
    // it is what the writer emits for an empty deflate stream
    let mut out = [0u8; 32];
    let mut sink: &mut [u8] = &mut out[..];
    write_frame(&mut sink, &[0x03, 0x00], 0, 0).unwrap();
    let i: usize = kani::any();
    kani::assume(i < 28);
    assert_eq!(out[i], BGZF_EOF[i]);
    assert_eq!(MIN_FRAME_SIZE, 26);
}

// @verif prop=C01 id=O1.3a tier=quick bound="all u64-pair trailers / all usize block sizes; no loops" fns="parse_trailer,MIN_FRAME_SIZE,MAX_BUF_SIZE,COMPRESSION_LEVEL_0_OVERHEAD,BGZF_HEADER_SIZE,TRAILER_SIZE"
#[kani::proof]
fn c01_budget_arithmetic_and_trailer_limits() {
    use crate::io::writer::{COMPRESSION_LEVEL_0_OVERHEAD, MAX_BUF_SIZE};
    // a full staging buffer stored at level 0 still fits one BGZF member (BSIZE is a u16)
    assert!(MAX_BUF_SIZE + COMPRESSION_LEVEL_0_OVERHEAD + BGZF_HEADER_SIZE + gz::TRAILER_SIZE <= 65536);
    // zlib's stored-block overhead for <= 65535 bytes is 5 bytes, which the budget must cover
    assert!(COMPRESSION_LEVEL_0_OVERHEAD >= 5);
    assert!(MAX_BUF_SIZE <= u16::MAX as usize); // Writer::virtual_position casts len to u16
    assert!(MAX_BUF_SIZE <= BGZF_MAX_ISIZE);
    assert_eq!(BGZF_HEADER_SIZE, 18);
    assert_eq!(gz::TRAILER_SIZE, 8);
    assert_eq!(BGZF_MAX_ISIZE, 65536);
    let t: [u8; 8] = kani::any();
    let isz = u32::from_le_bytes([t[4], t[5], t[6], t[7]]);
    let r = parse_trailer(&t);
    if isz as usize <= 65536 {
        let (c, i) = r.unwrap();
        assert!(c == u32::from_le_bytes([t[0], t[1], t[2], t[3]]) && i == isz as usize);
    } else {
        assert!(r.is_err());
        std::mem::forget(r);
    }
}

// ------------------------------------------------------------------------------------------------
// C15: arbitrary bytes into the frame parser / block parser

// @verif prop=C15 id=O15.bgzf.parse_frame tier=quick unwind=4 bound="arbitrary buffer of 0..=40 bytes (symbolic length and contents)" fns="parse_frame,split_frame,parse_header,parse_trailer"
#[kani::proof]
#[kani::unwind(4)]
fn c15_parse_frame_arbitrary_bytes() {
    let buf: [u8; 40] = kani::any();
    let n: usize = kani::any();
    kani::assume(n <= 40);
    let r = parse_frame(&buf[..n]);
    match &r {
        Ok((bs, cd, _, isz)) => {
            assert!(n >= 26 && *bs == n as u64 && cd.len() == n - 26 && *isz <= 65536);
            assert!(spec_parse_fixed_ok(&buf));
            kani::cover!(n == 40);
        }
        Err(_) => {
            kani::cover!(n >= 26);
        }
    }
    std::mem::forget(r);
}

fn spec_parse_fixed_ok(b: &[u8; 40]) -> bool {
    b[0] == 31 && b[1] == 139 && b[2] == 8 && b[3] == 4 && b[10] == 6 && b[11] == 0
        && b[12] == 66 && b[13] == 67 && b[14] == 2 && b[15] == 0
}

// @verif prop=C15 id=O15.bgzf.parse_block tier=quick unwind=70 timeout=600 stubs="deflate::decode->stored-block model,deflate::crc32->bitwise CRC-32" bound="arbitrary 26..=34-byte frame (cdata 0..=8 bytes, symbolic), ISIZE limited to <=8 by assumption (crc loop bound)" fns="parse_block,parse_frame,block_initialize,inflate,Data::as_mut,Data::resize"
#[kani::proof]
#[kani::unwind(70)]
#[kani::stub(crate::deflate::decode, deflate_model::decode)]
#[kani::stub(crate::deflate::crc32, deflate_model::crc32)]
fn c15_parse_block_arbitrary_frame() {
    let buf: [u8; 34] = kani::any();
    let n: usize = kani::any();
    kani::assume(n >= 26 && n <= 34);
    // keep the CRC loop bounded: ISIZE <= 8 (larger ISIZE only lengthens the same loop)
    let isz = u32::from_le_bytes([buf[n - 4], buf[n - 3], buf[n - 2], buf[n - 1]]);
    kani::assume(isz <= 8);
    let mut block = Block::default();
    let r = parse_block(&buf[..n], &mut block);
    if r.is_ok() {
        assert_eq!(block.data().len(), isz as usize);
        assert_eq!(block.size(), n as u64);
        assert_eq!(block.data().position(), 0);
        kani::cover!(isz == 3);
    }
    std::mem::forget(r);
    std::mem::forget(block);
}

// ------------------------------------------------------------------------------------------------
// C13 / C12: frame reader under truncation and under adversarial chunking
//
// Performance notes (DESIGN R3/R11): read_frame_into drops an io::Error internally, so the unwind
// bound is kept minimal: the caller's Vec is pre-sized (calloc, no loop) and frames carry 0..2
// bytes of cdata, so `Vec::resize` extends by at most 10 elements.

fn two_frames<const A: usize, const B: usize>(out: &mut [u8; 64]) -> (usize, usize) {
    let c1: [u8; A] = kani::any();
    let c2: [u8; B] = kani::any();
    let (crc1, crc2, i1, i2): (u32, u32, u16, u16) = kani::any();
    let mut sink: &mut [u8] = &mut out[..];
    let a = write_frame(&mut sink, &c1, crc1, i1 as usize).unwrap();
    let b = write_frame(&mut sink, &c2, crc2, i2 as usize).unwrap();
    (a, b)
}

/// what a correct reader may answer for a stream holding `avail` bytes of a `size`-byte frame
fn expected_for_cut(avail: usize, size: usize) -> Result<Option<()>, io::ErrorKind> {
    if avail >= size {
        Ok(Some(()))
    } else if avail == 0 {
        Ok(None) // clean end at a frame boundary
    } else {
        Err(io::ErrorKind::UnexpectedEof) // cut inside a frame
    }
}

// @verif prop=C13 id=O13.2a tier=quick unwind=12 timeout=900 bound="file = two frames (cdata 1 and 2 bytes, symbolic contents/CRC/ISIZE) cut at EVERY offset c in 0..=len (symbolic c); first read_frame_into call" fns="read_frame_into,<&[u8] as Read>::read_exact"
#[kani::proof]
#[kani::unwind(12)]
fn c13_read_frame_truncated_first() {
    let mut file = [0u8; 64];
    let (a, b) = two_frames::<1, 2>(&mut file);
    let c: usize = kani::any();
    kani::assume(c <= a + b);
    let mut src: &[u8] = &file[..c];
    let mut buf = vec![0u8; 40];
    let r1 = kind_of(read_frame_into(&mut src, &mut buf));
    let exp = expected_for_cut(c, a);
    if c > 0 && c < 18 {
        // KNOWN noodles behaviour, recorded in DESIGN.md: a cut inside the 18-byte header is
        // reported as end of input (Ok(None)), not as an error. The property only demands
        // "EOF or an error" for BGZF, and never a fabricated frame, so both are accepted here.
        assert!(r1 == Ok(None) || r1 == Err(io::ErrorKind::UnexpectedEof));
    } else {
        assert!(r1 == exp);
    }
    if r1 == Ok(Some(())) {
        assert_eq!(buf.len(), a);
        let i: usize = kani::any();
        kani::assume(i < a);
        assert_eq!(buf[i], file[i]); // unchanged bytes, never fabricated
        assert_eq!(src.len(), c - a);
    }
    kani::cover!(c == 20 && r1.is_err());
    kani::cover!(c == a + b);
    std::mem::forget(buf);
}

// @verif prop=C13 id=O13.2b tier=quick unwind=12 timeout=900 bound="same file; second read_frame_into call after a complete first frame, cut at every offset in a..=len" fns="read_frame_into"
#[kani::proof]
#[kani::unwind(12)]
fn c13_read_frame_truncated_second() {
    let mut file = [0u8; 64];
    let (a, b) = two_frames::<1, 2>(&mut file);
    let c: usize = kani::any();
    kani::assume(c >= a && c <= a + b);
    let mut src: &[u8] = &file[a..c];
    let mut buf = vec![0u8; 40];
    let r2 = kind_of(read_frame_into(&mut src, &mut buf));
    let avail = c - a;
    if avail > 0 && avail < 18 {
        assert!(r2 == Ok(None) || r2 == Err(io::ErrorKind::UnexpectedEof));
    } else {
        assert!(r2 == expected_for_cut(avail, b));
    }
    if r2 == Ok(Some(())) {
        assert_eq!(buf.len(), b);
        let i: usize = kani::any();
        kani::assume(i < b);
        assert_eq!(buf[i], file[a + i]);
        // and then a clean end
        assert!(src.is_empty());
    }
    kani::cover!(avail == 19 && r2.is_err());
    kani::cover!(avail == b);
    std::mem::forget(buf);
}

// @verif prop=C12 id=O12.3a tier=thorough unwind=12 timeout=2400 bound="one frame with 1-byte cdata (27 bytes) + 1 trailing byte, served with up to 2 solver-placed short reads of any size (no Interrupted)" fns="read_frame_into,std::io::default_read_exact"
#[kani::proof]
#[kani::unwind(12)]
fn c12_read_frame_into_any_chunking() {
    let mut file = [0u8; 32];
    let c1: [u8; 1] = kani::any();
    let (crc1, i1): (u32, u16) = kani::any();
    let a = {
        let mut sink: &mut [u8] = &mut file[..];
        write_frame(&mut sink, &c1, crc1, i1 as usize).unwrap()
    };
    let mut src = Chunky::new(&file[..a + 1], 0).with_short_budget(2);
    let mut buf = vec![0u8; 40];
    let r1 = kind_of(read_frame_into(&mut src, &mut buf));
    assert!(r1 == Ok(Some(())));
    assert_eq!(buf.len(), a);
    let i: usize = kani::any();
    kani::assume(i < a);
    assert_eq!(buf[i], file[i]);
    assert_eq!(src.pos, a); // nothing beyond the frame was consumed
    kani::cover!(src.short_left == 0);
    std::mem::forget(buf);
}

// canary
// @verif prop=C01 id=canary tier=quick expect=fail unwind=3 bound="deliberately wrong: claims BSIZE field == total size" fns="write_frame"
#[kani::proof]
#[kani::unwind(3)]
fn c01_canary_bsize_is_total() {
    let cdata: [u8; 2] = kani::any();
    let mut out = [0u8; FRAME_MAX];
    let mut sink: &mut [u8] = &mut out[..];
    let total = write_frame(&mut sink, &cdata, 0, 0).unwrap();
    assert_eq!((out[16] as usize) | ((out[17] as usize) << 8), total);
}

