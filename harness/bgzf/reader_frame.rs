// placeholder
