// Shared harness-side environment models (exist natively too, so concrete playback works; R9).
//
// Every `kani::any()` here is *environment nondeterminism* (read sizes, fault positions), never a
// stand-in for code under test.
#![allow(dead_code)]

use std::io::{self, BufRead, Read, Write};

/// Adversarial byte source: serves `data` in solver-chosen short reads (1..=min(avail, want)) and
/// injects up to `interrupts` solver-placed `ErrorKind::Interrupted` results.
pub struct Chunky<'a> {
    pub data: &'a [u8],
    pub pos: usize,
    pub interrupts: u8,
    pub calls: u32,
    /// how many reads may still be short; `u8::MAX` = unlimited
    pub short_left: u8,
}

impl<'a> Chunky<'a> {
    pub fn new(data: &'a [u8], interrupts: u8) -> Self {
        Self {
            data,
            pos: 0,
            interrupts,
            calls: 0,
            short_left: u8::MAX,
        }
    }

    /// at most `n` solver-placed short reads, every other read is served in full
    pub fn with_short_budget(mut self, n: u8) -> Self {
        self.short_left = n;
        self
    }
}

impl Read for Chunky<'_> {
    fn read(&mut self, buf: &mut [u8]) -> io::Result<usize> {
        self.calls += 1;
        if self.interrupts > 0 && kani::any::<bool>() {
            self.interrupts -= 1;
            return Err(io::Error::from(io::ErrorKind::Interrupted));
        }
        let avail = self.data.len() - self.pos;
        let max = avail.min(buf.len());
        if max == 0 {
            return Ok(0);
        }
        let mut n = max;
        if self.short_left > 0 {
            let m: usize = kani::any();
            kani::assume(m >= 1 && m <= max);
            if m < max && self.short_left != u8::MAX {
                self.short_left -= 1;
            }
            n = m;
        }
        buf[..n].copy_from_slice(&self.data[self.pos..self.pos + n]);
        self.pos += n;
        Ok(n)
    }
}

/// Adversarial `BufRead`: every `fill_buf` exposes a solver-chosen non-empty window of what is left
/// (1..=avail bytes), so line terminators / magic numbers may be split across refills.
pub struct ChunkyBuf<'a> {
    pub data: &'a [u8],
    pub pos: usize,
    pub window: usize,
    /// how many refills may still expose a partial window; `u8::MAX` = unlimited
    pub partial_left: u8,
}

impl<'a> ChunkyBuf<'a> {
    pub fn new(data: &'a [u8]) -> Self {
        Self {
            data,
            pos: 0,
            window: 0,
            partial_left: u8::MAX,
        }
    }

    /// the FIRST window has exactly `k` bytes (concrete split point), everything after it is exposed
    /// in full
    pub fn split_at(mut self, k: usize) -> Self {
        self.window = k.min(self.data.len());
        self.partial_left = 0;
        self
    }

    /// at most `n` solver-placed partial windows (of any size), every other refill exposes all that
    /// is left: n = 1 is "the stream is split in two at ANY offset"
    pub fn with_partial_budget(mut self, n: u8) -> Self {
        self.partial_left = n;
        self
    }
}

impl Read for ChunkyBuf<'_> {
    fn read(&mut self, buf: &mut [u8]) -> io::Result<usize> {
        let n = {
            let src = self.fill_buf()?;
            let n = src.len().min(buf.len());
            let mut i = 0;
            while i < n {
                buf[i] = src[i];
                i += 1;
            }
            n
        };
        self.consume(n);
        Ok(n)
    }
}

impl BufRead for ChunkyBuf<'_> {
    fn fill_buf(&mut self) -> io::Result<&[u8]> {
        let avail = self.data.len() - self.pos;
        if avail == 0 {
            self.window = 0;
            return Ok(&[]);
        }
        if self.window == 0 {
            let mut w = avail;
            if self.partial_left > 0 {
                let x: usize = kani::any();
                kani::assume(x >= 1 && x <= avail);
                if x < avail && self.partial_left != u8::MAX {
                    self.partial_left -= 1;
                }
                w = x;
            }
            self.window = w;
        }
        Ok(&self.data[self.pos..self.pos + self.window])
    }

    fn consume(&mut self, amt: usize) {
        let amt = amt.min(self.window);
        self.pos += amt;
        self.window -= amt;
    }
}

/// `ChunkyBuf` whose `read_until` is a plain byte loop with the contract of the std default method
/// (append up to and including the delimiter, or up to EOF; return the number of bytes appended).  The std
/// default goes through core's word-at-a-time memchr and `Vec::extend_from_slice` with symbolic lengths,
/// which do not fit; that code is std's, not noodles'.
pub struct ChunkyLines<'a>(pub ChunkyBuf<'a>);

impl Read for ChunkyLines<'_> {
    fn read(&mut self, buf: &mut [u8]) -> io::Result<usize> {
        self.0.read(buf)
    }
}

impl BufRead for ChunkyLines<'_> {
    fn fill_buf(&mut self) -> io::Result<&[u8]> {
        self.0.fill_buf()
    }

    fn consume(&mut self, amt: usize) {
        self.0.consume(amt)
    }

    fn read_until(&mut self, byte: u8, buf: &mut Vec<u8>) -> io::Result<usize> {
        // the result of read_until does not depend on the window sizes: one loop over what is left
        let mut n = 0;
        let mut done = false;
        while self.0.pos < self.0.data.len() && !done {
            let b = self.0.data[self.0.pos];
            buf.push(b);
            done = b == byte;
            self.0.pos += 1;
            n += 1;
        }
        self.0.window = 0;
        Ok(n)
    }
}

/// What a `FaultySink` does. Call indices count `write` calls from 0; `u32::MAX` = never.
/// Harnesses pass CONCRETE indices (one instance per index, or a small loop): with a symbolic
/// index every call site carries a symbolic io::Error whose drop glue CBMC must explore
/// (measured: 576 s symbolic vs 7.5 s concrete for one 15-call frame). Data and the short-write
/// length stay symbolic.
#[derive(Clone, Copy)]
pub struct Faults {
    /// fail permanently from this call on
    pub fail_at: u32,
    /// this call accepts only the first byte of its buffer (a short write)
    pub short_at: u32,
    /// this call returns ErrorKind::Interrupted (once)
    pub interrupt_at: u32,
}

impl Faults {
    pub const NONE: Self = Self {
        fail_at: u32::MAX,
        short_at: u32::MAX,
        interrupt_at: u32::MAX,
    };
}

/// Nondeterministic sink over a fixed array.
pub struct FaultySink<const N: usize> {
    pub buf: [u8; N],
    pub len: usize,
    pub calls: u32,
    pub faults: Faults,
    pub failed: bool,
    pub shorted: bool,
    pub interrupted: bool,
    pub flushes: u32,
}

impl<const N: usize> FaultySink<N> {
    pub fn new(faults: Faults) -> Self {
        Self {
            buf: [0; N],
            len: 0,
            calls: 0,
            faults,
            failed: false,
            shorted: false,
            interrupted: false,
            flushes: 0,
        }
    }

    pub fn written(&self) -> &[u8] {
        &self.buf[..self.len]
    }
}

impl<const N: usize> Write for FaultySink<N> {
    fn write(&mut self, src: &[u8]) -> io::Result<usize> {
        let k = self.calls;
        self.calls += 1;
        if self.failed || k == self.faults.fail_at {
            self.failed = true;
            return Err(io::Error::from(io::ErrorKind::BrokenPipe));
        }
        if k == self.faults.interrupt_at {
            self.interrupted = true;
            return Err(io::Error::from(io::ErrorKind::Interrupted));
        }
        if src.is_empty() {
            return Ok(0);
        }
        let mut n = src.len();
        if k == self.faults.short_at && src.len() > 1 {
            n = 1; // shortest possible partial write (concrete: keeps control flow concrete)
            self.shorted = true;
        }
        // the sink array is sized by the harness to hold everything a correct writer emits
        assert!(self.len + n <= N, "harness sink too small");
        self.buf[self.len..self.len + n].copy_from_slice(&src[..n]);
        self.len += n;
        Ok(n)
    }

    fn flush(&mut self) -> io::Result<()> {
        self.flushes += 1;
        if self.failed {
            return Err(io::Error::from(io::ErrorKind::BrokenPipe));
        }
        Ok(())
    }
}

/// Plain slice sink without any fault (cheaper than FaultySink for pure output checks).
pub struct SliceSink<const N: usize> {
    pub buf: [u8; N],
    pub len: usize,
}

impl<const N: usize> SliceSink<N> {
    pub fn new() -> Self {
        Self { buf: [0; N], len: 0 }
    }
    pub fn written(&self) -> &[u8] {
        &self.buf[..self.len]
    }
}

impl<const N: usize> Write for SliceSink<N> {
    fn write(&mut self, src: &[u8]) -> io::Result<usize> {
        assert!(self.len + src.len() <= N, "harness sink too small");
        self.buf[self.len..self.len + src.len()].copy_from_slice(src);
        self.len += src.len();
        Ok(src.len())
    }
    fn flush(&mut self) -> io::Result<()> {
        Ok(())
    }
}

/// Stub for `alloc::fmt::format` (R4): error texts are never the subject.
pub fn stub_fmt_format(_args: std::fmt::Arguments<'_>) -> String {
    String::new()
}

/// Bitwise CRC-32 (IEEE, reflected) — exact reference used as a native-faithful stub.
pub fn crc32_bitwise(src: &[u8]) -> u32 {
    let mut crc: u32 = 0xffff_ffff;
    let mut i = 0;
    while i < src.len() {
        crc ^= src[i] as u32;
        let mut k = 0;
        while k < 8 {
            let mask = (crc & 1).wrapping_neg();
            crc = (crc >> 1) ^ (0xedb8_8320 & mask);
            k += 1;
        }
        i += 1;
    }
    !crc
}

/// `io::Error`s must not be dropped on a harness path (R3).
pub fn forget<T>(t: T) {
    std::mem::forget(t)
}

/// Result summarised without keeping the error alive in a droppable place.
pub fn kind_of<T>(r: io::Result<T>) -> Result<T, io::ErrorKind> {
    match r {
        Ok(v) => Ok(v),
        Err(e) => {
            let k = e.kind();
            std::mem::forget(e);
            Err(k)
        }
    }
}

/// Model of `std::str::from_utf8` (std code, not noodles'): the real validator's word-at-a-time fast path
/// plus the boxed Utf8Error do not fit CBMC under symbolic bytes (>14 GB for a 2-byte field).  EXACT on
/// byte strings made only of ASCII bytes, 2-byte lead bytes C2..=DF and continuation bytes 80..=BF: valid
/// iff every lead byte is followed by a continuation byte and no continuation byte stands alone.  Any other
/// byte violates the model's precondition, which is asserted (harnesses assume it).  The Err value is a
/// genuine Utf8Error (obtained from the un-stubbed from_utf8_mut on a constant); its fields are not the
/// ones of the real error -- noodles only wraps it in io::Error.
pub fn from_utf8_model(v: &[u8]) -> Result<&str, std::str::Utf8Error> {
    let mut i = 0;
    let mut ok = true;
    while i < v.len() {
        let b = v[i];
        if b < 0x80 {
            i += 1;
        } else if b >= 0xC2 && b <= 0xDF {
            if i + 1 < v.len() && (v[i + 1] & 0xC0) == 0x80 {
                i += 2;
            } else {
                ok = false;
                break;
            }
        } else {
            assert!(b <= 0xBF, "from_utf8 model precondition: only ASCII and 2-byte sequences");
            ok = false;
            break;
        }
    }
    if ok {
        Ok(unsafe { std::str::from_utf8_unchecked(v) })
    } else {
        let mut bad = [0xFFu8];
        match std::str::from_utf8_mut(&mut bad) {
            Err(e) => Err(e),
            Ok(_) => unreachable!(),
        }
    }
}

/// bytes the from_utf8 model is exact on
pub fn utf8_model_byte(b: u8) -> bool {
    b <= 0xBF || (b >= 0xC2 && b <= 0xDF)
}
