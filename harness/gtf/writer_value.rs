// Kani harness mounted inside noodles-gtf/src/io/writer/line/record/attributes/field/value.rs.
#![allow(unused_imports, dead_code)]

use std::io::{self, Write};

use bstr::ByteSlice;

use super::*;

// @verif prop=C18 id=O18.2/write tier=quick unwind=8 bound="EVERY 2-byte attribute value (all byte values): the writer emits '\"' + value with backslash and quote backslash-escaped + '\"' (the form the reader-side obligation O18.2/read starts from)" fns="gtf::io::writer::line::record::attributes::field::value::write_value,requires_escapes,write_escaped_string"
#[kani::proof]
#[kani::unwind(8)]
fn c18_gtf_attribute_value_writer_escapes() {
    let v: [u8; 2] = kani::any();
    let mut buf = [0u8; 16];
    let mut sink: &mut [u8] = &mut buf[..];
    write_value(&mut sink, v[..].as_bstr()).unwrap();
    let n = 16 - sink.len();
    // independent expectation
    let mut e = [0u8; 16];
    let mut m = 0;
    e[m] = b'"';
    m += 1;
    let mut i = 0;
    while i < 2 {
        if v[i] == b'\\' || v[i] == b'"' {
            e[m] = b'\\';
            m += 1;
        }
        e[m] = v[i];
        m += 1;
        i += 1;
    }
    e[m] = b'"';
    m += 1;
    assert_eq!(n, m);
    let k: usize = kani::any();
    kani::assume(k < m);
    assert_eq!(buf[k], e[k]);
    kani::cover!(n == 6);
}
