// Kani harness mounted inside noodles-gtf/src/record/attributes/field.rs (reader side of the GTF
// attribute value escaping layer; `escape_decode` lives in the parent module).
#![allow(unused_imports, dead_code)]

use super::*;

/// GTF attribute value as the noodles GTF writer emits it (checked separately against the real
/// writer in harness/gtf/writer_value.rs): `"` + value with `\` and `"` backslash-escaped + `"`
fn spec_quote(v: &[u8], out: &mut [u8; 16]) -> usize {
    let mut n = 0;
    out[n] = b'"';
    n += 1;
    let mut i = 0;
    while i < v.len() {
        if v[i] == b'\\' || v[i] == b'"' {
            out[n] = b'\\';
            n += 1;
        }
        out[n] = v[i];
        n += 1;
        i += 1;
    }
    out[n] = b'"';
    n + 1
}

// @verif prop=C18 id=O18.2/read tier=quick unwind=8 timeout=600 bound="attribute `k \"<v>\";` for EVERY 2-byte value v (all byte values, incl. quote and backslash), quoted/escaped as the writer does: parse_field + escape_decode return key k and exactly v" fns="gtf::record::attributes::field::parse_field,parse_key,parse_value,parse_string,maybe_consume_terminator,gtf::record::attributes::escape_decode,unescape_string"
#[kani::proof]
#[kani::unwind(8)]
fn c18_gtf_attribute_value_unescape_inverts_escape() {
    let v: [u8; 2] = kani::any();
    let mut text = [0u8; 16];
    text[0] = b'k';
    text[1] = b' ';
    let mut q = [0u8; 16];
    let qn = spec_quote(&v, &mut q);
    let mut i = 0;
    while i < qn {
        text[2 + i] = q[i];
        i += 1;
    }
    text[2 + qn] = b';';
    let n = 3 + qn;
    let mut src: &[u8] = &text[..n];
    let r = parse_field(&mut src);
    assert!(r.is_ok());
    let (key, raw) = r.unwrap();
    assert!(key.len() == 1 && key[0] == b'k');
    let d = super::super::escape_decode(raw);
    assert!(d.is_ok());
    let d = d.unwrap();
    assert_eq!(d.len(), 2);
    assert!(d[0] == v[0] && d[1] == v[1]);
    assert!(src.is_empty());
    kani::cover!(v[0] == b'"');
    kani::cover!(v[1] == b'\\');
    std::mem::forget(d);
}
