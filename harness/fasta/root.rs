// Kani harnesses mounted at the crate root of noodles-fasta.
#![allow(unused_imports, dead_code)]

use std::num::NonZero;

use noodles_core::{Position, region::Interval};

use crate::fai;

fn q(rec: &fai::Record, start1: usize) -> u64 {
    let iv: Interval = (Position::new(start1).unwrap()..).into();
    rec.query(iv).unwrap()
}

// @verif prop=C11 id=O11.1/kani-small tier=off off_reason="does not fit: two 64-bit divisions + remainders, >900 s in CBMC; the MIR->SMT obligation covers all u64 geometries" unwind=3 timeout=900 bound="fai geometries with line_bases <= 255, line_width <= 511 (>= line_bases), position < 2^32 and 1-based starts < 2^16, through the PUBLIC Record::query: offset(1) = position; offset(s+1)-offset(s) = 1 inside a line, 1+(line_width-line_bases) across a line end (cross-check of the MIR->SMT obligation that covers all u64 geometries)" fns="fai::Record::query,Interval::start"
#[kani::proof]
#[kani::unwind(3)]
fn c11_fai_query_offset_induction_small_geometry() {
    let (pos, lbc, lw): (u64, u64, u64) = kani::any();
    kani::assume(pos < (1 << 32) && 1 <= lbc && lbc <= 255 && lbc <= lw && lw <= 511);
    let rec = fai::Record::new("s", 0, pos, NonZero::new(lbc).unwrap(), NonZero::new(lw).unwrap());
    let s: usize = kani::any();
    kani::assume(1 <= s && s < (1 << 16));
    let a = q(&rec, s);
    let b = q(&rec, s + 1);
    // 0-based index of base s+1 is s: it starts a new line iff s % lbc == 0
    if (s as u64) % lbc != 0 {
        assert_eq!(b, a + 1);
    } else {
        assert_eq!(b, a + 1 + (lw - lbc));
    }
    assert_eq!(q(&rec, 1), pos);
    kani::cover!((s as u64) % lbc == 0 && s as u64 > lbc);
    std::mem::forget(rec);
}
