// Kani harnesses mounted at the crate root of noodles-fasta.
#![allow(unused_imports, dead_code)]

use std::num::NonZero;

use noodles_core::{Position, region::Interval};

use crate::fai;

/// Model of `memchr::memchr` used under cfg(kani) by the line scanners of this crate (hook
/// "memchr shim"): the documented contract -- index of the FIRST occurrence of `needle`, None if absent --
/// as a plain loop.  The real crate dispatches to SSE2/AVX2 kernels through inline asm and 128-bit vector
/// intrinsics, which do not fit CBMC under symbolic bytes (DESIGN R15); Kani does not apply a
/// `#[kani::stub]` to that call site, hence the source-level shim.  Part of the trusted base.
pub(crate) fn memchr_model(needle: u8, haystack: &[u8]) -> Option<usize> {
    let mut i = 0;
    while i < haystack.len() {
        if haystack[i] == needle {
            return Some(i);
        }
        i += 1;
    }
    None
}

fn q(rec: &fai::Record, start1: usize) -> u64 {
    let iv: Interval = (Position::new(start1).unwrap()..).into();
    rec.query(iv).unwrap()
}

// @verif prop=C11 id=O11.1/kani-small tier=off off_reason="does not fit: two 64-bit divisions + remainders, >900 s in CBMC; the MIR->SMT obligation covers all u64 geometries" unwind=3 timeout=900 bound="fai geometries with line_bases <= 255, line_width <= 511 (>= line_bases), position < 2^32 and 1-based starts < 2^16, through the PUBLIC Record::query: offset(1) = position; offset(s+1)-offset(s) = 1 inside a line, 1+(line_width-line_bases) across a line end (cross-check of the MIR->SMT obligation that covers all u64 geometries)" fns="fai::Record::query,Interval::start"
#[kani::proof]
#[kani::unwind(3)]
fn c11_fai_query_offset_induction_small_geometry() {
    let (pos, lbc, lw): (u64, u64, u64) = kani::any();
    kani::assume(pos < (1 << 32) && 1 <= lbc && lbc <= 255 && lbc <= lw && lw <= 511);
    let rec = fai::Record::new("s", 0, pos, NonZero::new(lbc).unwrap(), NonZero::new(lw).unwrap());
    let s: usize = kani::any();
    kani::assume(1 <= s && s < (1 << 16));
    let a = q(&rec, s);
    let b = q(&rec, s + 1);
    // 0-based index of base s+1 is s: it starts a new line iff s % lbc == 0
    if (s as u64) % lbc != 0 {
        assert_eq!(b, a + 1);
    } else {
        assert_eq!(b, a + 1 + (lw - lbc));
    }
    assert_eq!(q(&rec, 1), pos);
    kani::cover!((s as u64) % lbc == 0 && s as u64 > lbc);
    std::mem::forget(rec);
}

fn concrete_geometry_case(lbc: u64, lw: u64) {
    let pos: u64 = kani::any();
    kani::assume(pos < (1 << 40));
    let rec = fai::Record::new("s", 0, pos, NonZero::new(lbc).unwrap(), NonZero::new(lw).unwrap());
    let s: usize = kani::any();
    kani::assume(1 <= s && s < 4096);
    let a = q(&rec, s);
    let b = q(&rec, s + 1);
    // 0-based index of base s+1 is s: it starts a new line iff s % lbc == 0
    if (s as u64) % lbc != 0 {
        assert_eq!(b, a + 1);
    } else {
        assert_eq!(b, a + 1 + (lw - lbc));
    }
    assert_eq!(q(&rec, 1), pos);
    std::mem::forget(rec);
}

macro_rules! geometry_instance {
    ($name:ident, $lbc:expr, $lw:expr) => {
        #[kani::proof]
        #[kani::unwind(3)]
        fn $name() {
            concrete_geometry_case($lbc, $lw);
        }
    };
}

// @verif prop=C11 id=O11.1/kani-60-61 tier=quick harness=c11_fai_query_offset_geometry_60_61 unwind=3 bound="through the PUBLIC fai::Record::query(Interval): CONCRETE geometry line_bases=60, line_width=61 (division by a constant; symbolic geometries are the MIR->SMT obligation O11.1), ANY position < 2^40, ANY 1-based start < 4096: offset(1) = position; offset(s+1)-offset(s) = 1 inside a line, 2 across a line end -- a cross-check of the E2 kernel binding that survives refactorings of the function body" fns="fai::Record::query,Interval::start,Position"
geometry_instance!(c11_fai_query_offset_geometry_60_61, 60, 61);
// @verif prop=C11 id=O11.1/kani-3-5 tier=quick harness=c11_fai_query_offset_geometry_3_5 unwind=3 bound="as O11.1/kani-60-61 with line_bases=3, line_width=5 (CR LF line ends)" fns="fai::Record::query,Interval::start,Position"
geometry_instance!(c11_fai_query_offset_geometry_3_5, 3, 5);
// @verif prop=C11 id=O11.1/kani-1-2 tier=thorough harness=c11_fai_query_offset_geometry_1_2 unwind=3 bound="as O11.1/kani-60-61 with line_bases=1, line_width=2" fns="fai::Record::query,Interval::start,Position"
geometry_instance!(c11_fai_query_offset_geometry_1_2, 1, 2);
// @verif prop=C11 id=O11.1/kani-80-82 tier=thorough harness=c11_fai_query_offset_geometry_80_82 unwind=3 bound="as O11.1/kani-60-61 with line_bases=80, line_width=82" fns="fai::Record::query,Interval::start,Position"
geometry_instance!(c11_fai_query_offset_geometry_80_82, 80, 82);
