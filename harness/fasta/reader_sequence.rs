// Kani harnesses mounted inside noodles-fasta/src/io/reader/sequence.rs.
#![allow(unused_imports, dead_code)]

#[path = "/verif/harness/common.rs"]
mod common;

use std::io::{self, BufRead, Read};

use self::common::*;
use super::*;

/// cpuid inline asm is not executable by Kani: report "no optional CPU features", so that memchr's
/// runtime dispatch takes its (real) SSE2 implementation
pub fn fake_cpuid(_leaf: u32, _sub_leaf: u32) -> std::arch::x86_64::CpuidResult {
    std::arch::x86_64::CpuidResult { eax: 0, ebx: 0, ecx: 0, edx: 0 }
}

fn base(b: u8) -> bool {
    b != b'\r' && b != b'\n' && b != b'>'
}

// @verif prop=C12,C11 id=O12.4a tier=off off_reason="does not fit: >900 s / >14 GB with the real memchr SSE2 path under a symbolic window" unwind=12 timeout=900 stubs="std::arch::x86_64::__cpuid_count->no optional CPU features (memchr runs its real SSE2 path)" bound="sequence text b0 b1 CR LF b2 CR LF '>' (3 symbolic base bytes, CRLF line ends, next record follows) delivered through a BufRead that splits the text in two at ANY offset (one solver-placed partial fill_buf window of any size, then the rest): bases read == b0 b1 b2, no terminator byte ever emitted" fns="fasta::io::reader::sequence::Reader::fill_buf,consume_empty_lines,read_sequence_limit"
#[kani::proof]
#[kani::unwind(12)]
#[kani::stub(std::arch::x86_64::__cpuid_count, fake_cpuid)]
fn c12_fasta_sequence_reader_crlf_any_windows() {
    let b: [u8; 3] = kani::any();
    kani::assume(base(b[0]) && base(b[1]) && base(b[2]));
    let data = [b[0], b[1], b'\r', b'\n', b[2], b'\r', b'\n', b'>'];
    let mut src = ChunkyBuf::new(&data).with_partial_budget(1);
    let mut out = Vec::with_capacity(8);
    let n = read_sequence_limit(&mut src, 8, &mut out).unwrap();
    assert_eq!(n, 3);
    assert_eq!(out.len(), 3);
    assert!(out[0] == b[0] && out[1] == b[1] && out[2] == b[2]);
    assert_eq!(src.pos, 7); // stops in front of the next definition line
    std::mem::forget(out);
}

// @verif prop=C12,C11 id=O12.4b tier=off off_reason="does not fit: >900 s / >14 GB with the real memchr SSE2 path under a symbolic window" unwind=12 timeout=900 stubs="std::arch::x86_64::__cpuid_count->no optional CPU features (memchr runs its real SSE2 path)" bound="sequence text b0 LF b1 b2 LF then EOF (LF line ends, short last line), split in two at any offset, limit 2 bases: exactly the first 2 bases" fns="Reader::fill_buf,consume_empty_lines,read_sequence_limit"
#[kani::proof]
#[kani::unwind(12)]
#[kani::stub(std::arch::x86_64::__cpuid_count, fake_cpuid)]
fn c12_fasta_sequence_reader_limit_any_windows() {
    let b: [u8; 3] = kani::any();
    kani::assume(base(b[0]) && base(b[1]) && base(b[2]));
    let data = [b[0], b'\n', b[1], b[2], b'\n'];
    let mut src = ChunkyBuf::new(&data).with_partial_budget(1);
    let mut out = Vec::with_capacity(8);
    let n = read_sequence_limit(&mut src, 2, &mut out).unwrap();
    assert_eq!(n, 2);
    assert!(out.len() == 2 && out[0] == b[0] && out[1] == b[1]);
    std::mem::forget(out);
}

fn seq_case(k: usize) {
    let b: [u8; 3] = kani::any();
    kani::assume(base(b[0]) && base(b[1]) && base(b[2]));
    let data = [b[0], b[1], b'\r', b'\n', b[2], b'\r', b'\n', b'>'];
    let mut src = ChunkyBuf::new(&data).split_at(k);
    let mut out = Vec::with_capacity(8);
    let n = read_sequence_limit(&mut src, 8, &mut out).unwrap();
    assert_eq!(n, 3);
    assert!(out.len() == 3 && out[0] == b[0] && out[1] == b[1] && out[2] == b[2]);
    assert_eq!(src.pos, 7);
    std::mem::forget(out);
}

// @verif prop=C12,C11 id=O12.4f tier=off off_reason="does not fit: >600 s even with CONCRETE split points -- the real memchr SSE2 path over symbolic bytes is what explodes" unwind=20 timeout=600 stubs="std::arch::x86_64::__cpuid_count->no optional CPU features (memchr runs its real SSE2 path)" bound="sequence text b0 b1 CR LF b2 CR LF '>' (symbolic base bytes) delivered in two fill_buf windows split after byte 2, 3 (between CR and LF), 4, 6 (one run each; concrete split positions, R13): bases read == b0 b1 b2, no terminator byte emitted, stops before '>'" fns="fasta::io::reader::sequence::Reader::fill_buf,consume_empty_lines,read_sequence_limit"
#[kani::proof]
#[kani::unwind(20)]
#[kani::stub(std::arch::x86_64::__cpuid_count, fake_cpuid)]
fn c12_fasta_sequence_reader_crlf_split_anywhere() {
    seq_case(2);
    seq_case(3);
    seq_case(4);
    seq_case(6);
}
