// Kani harnesses mounted inside noodles-fasta/src/io/reader/sequence.rs.
#![allow(unused_imports, dead_code)]

#[path = "/verif/harness/common.rs"]
mod common;

use std::io::{self, BufRead, Read};

use self::common::*;
use super::*;

/// cpuid inline asm is not executable by Kani: report "no optional CPU features", so that memchr's
/// runtime dispatch takes its (real) SSE2 implementation
pub fn fake_cpuid(_leaf: u32, _sub_leaf: u32) -> std::arch::x86_64::CpuidResult {
    std::arch::x86_64::CpuidResult { eax: 0, ebx: 0, ecx: 0, edx: 0 }
}

fn base(b: u8) -> bool {
    b != b'\r' && b != b'\n' && b != b'>'
}

// @verif prop=C12,C11 id=O12.4a tier=off off_reason="does not fit: >9 GB even with the memchr shim (Vec::extend with a symbolic-length slice inside read_sequence_limit); superseded by O12.4g/h which drain the same Reader through its Read impl into a fixed array" unwind=12 timeout=900 stubs="memchr::memchr->first-occurrence loop (cfg(kani) source shim, documented contract)" bound="sequence text b0 b1 CR LF b2 CR LF '>' (3 symbolic base bytes, CRLF line ends, next record follows) delivered through a BufRead that splits the text in two at ANY offset (one solver-placed partial fill_buf window of any size, then the rest): bases read == b0 b1 b2, no terminator byte ever emitted" fns="fasta::io::reader::sequence::Reader::fill_buf,consume_empty_lines,read_sequence_limit"
#[kani::proof]
#[kani::unwind(12)]
fn c12_fasta_sequence_reader_crlf_any_windows() {
    let b: [u8; 3] = kani::any();
    kani::assume(base(b[0]) && base(b[1]) && base(b[2]));
    let data = [b[0], b[1], b'\r', b'\n', b[2], b'\r', b'\n', b'>'];
    let mut src = ChunkyBuf::new(&data).with_partial_budget(1);
    let mut out = Vec::with_capacity(8);
    let n = read_sequence_limit(&mut src, 8, &mut out).unwrap();
    assert_eq!(n, 3);
    assert_eq!(out.len(), 3);
    assert!(out[0] == b[0] && out[1] == b[1] && out[2] == b[2]);
    assert_eq!(src.pos, 7); // stops in front of the next definition line
    std::mem::forget(out);
}

// @verif prop=C12,C11 id=O12.4b tier=off off_reason="does not fit: >9 GB even with the memchr shim (Vec::extend with a symbolic-length slice inside read_sequence_limit); superseded by O12.4g/h which drain the same Reader through its Read impl into a fixed array" unwind=12 timeout=900 stubs="memchr::memchr->first-occurrence loop (cfg(kani) source shim, documented contract)" bound="sequence text b0 LF b1 b2 LF then EOF (LF line ends, short last line), split in two at any offset, limit 2 bases: exactly the first 2 bases" fns="Reader::fill_buf,consume_empty_lines,read_sequence_limit"
#[kani::proof]
#[kani::unwind(12)]
fn c12_fasta_sequence_reader_limit_any_windows() {
    let b: [u8; 3] = kani::any();
    kani::assume(base(b[0]) && base(b[1]) && base(b[2]));
    let data = [b[0], b'\n', b[1], b[2], b'\n'];
    let mut src = ChunkyBuf::new(&data).with_partial_budget(1);
    let mut out = Vec::with_capacity(8);
    let n = read_sequence_limit(&mut src, 2, &mut out).unwrap();
    assert_eq!(n, 2);
    assert!(out.len() == 2 && out[0] == b[0] && out[1] == b[1]);
    std::mem::forget(out);
}

/// read_sequence()/read_sequence_limit() are `Reader::new(inner)` + a std copy loop into a Vec
/// (read_to_end / Vec::extend with a symbolic length: does not fit, R12).  The noodles logic -- line
/// terminator stripping, empty lines, stop at '>' -- is all in `Reader::{read, fill_buf, consume}`, which
/// this drains with the same loop shape into a fixed array.
fn drain<R: BufRead>(src: &mut R, out: &mut [u8; 8]) -> usize {
    let mut r = Reader::new(src);
    let mut total = 0;
    let mut k = 0;
    while k < 6 {
        let n = r.read(&mut out[total..]).unwrap();
        if n == 0 {
            return total;
        }
        total += n;
        k += 1;
    }
    usize::MAX // more than 6 non-empty reads: cannot happen with <= 2 windows and 2 lines
}

// @verif prop=C12,C11 id=O12.4g tier=quick unwind=10 timeout=900 stubs="memchr::memchr->first-occurrence loop (cfg(kani) source shim, documented contract)" bound="sequence text b0 b1 CR LF b2 CR LF '>' (3 symbolic base bytes, CRLF line ends, next record follows) delivered through a BufRead that splits the text in two at ANY offset (one solver-placed partial fill_buf window of any size, then the rest), drained through the sequence Reader's Read impl: bases read == b0 b1 b2, no terminator byte ever emitted, stops in front of '>'" fns="fasta::io::reader::sequence::Reader::read,Reader::fill_buf,Reader::consume,consume_empty_lines"
#[kani::proof]
#[kani::unwind(10)]
fn c12_fasta_sequence_reader_read_crlf_any_windows() {
    let b: [u8; 3] = kani::any();
    kani::assume(base(b[0]) && base(b[1]) && base(b[2]));
    let data = [b[0], b[1], b'\r', b'\n', b[2], b'\r', b'\n', b'>'];
    let mut src = ChunkyBuf::new(&data).with_partial_budget(1);
    let mut out = [0u8; 8];
    let n = drain(&mut src, &mut out);
    assert_eq!(n, 3);
    assert!(out[0] == b[0] && out[1] == b[1] && out[2] == b[2]);
    assert_eq!(src.pos, 7);
}

// @verif prop=C12,C11,C13 id=O12.4h tier=thorough unwind=10 stubs="memchr::memchr->first-occurrence loop (cfg(kani) source shim, documented contract)" bound="sequence text b0 LF b1 b2 then EOF without a final line terminator / with a final CR LF (symbolic choice), split in two at any offset: exactly b0 b1 b2, then end of sequence" fns="Reader::read,Reader::fill_buf,Reader::consume,consume_empty_lines"
#[kani::proof]
#[kani::unwind(10)]
fn c12_fasta_sequence_reader_read_last_line_any_windows() {
    let b: [u8; 3] = kani::any();
    kani::assume(base(b[0]) && base(b[1]) && base(b[2]));
    let data = [b[0], b'\n', b[1], b[2], b'\r', b'\n'];
    let tail: usize = kani::any();
    // tail 0: "...b2" EOF; tail 2: "...b2 CR LF" EOF (a lone CR before EOF is malformed: not claimed)
    kani::assume(tail == 0 || tail == 2);
    let mut src = ChunkyBuf::new(&data[..4 + tail]).with_partial_budget(1);
    let mut out = [0u8; 8];
    let n = drain(&mut src, &mut out);
    assert_eq!(n, 3);
    assert!(out[0] == b[0] && out[1] == b[1] && out[2] == b[2]);
    assert_eq!(src.pos, 4 + tail);
}

fn seq_case(k: usize) {
    let b: [u8; 3] = kani::any();
    kani::assume(base(b[0]) && base(b[1]) && base(b[2]));
    let data = [b[0], b[1], b'\r', b'\n', b[2], b'\r', b'\n', b'>'];
    let mut src = ChunkyBuf::new(&data).split_at(k);
    let mut out = Vec::with_capacity(8);
    let n = read_sequence_limit(&mut src, 8, &mut out).unwrap();
    assert_eq!(n, 3);
    assert!(out.len() == 3 && out[0] == b[0] && out[1] == b[1] && out[2] == b[2]);
    assert_eq!(src.pos, 7);
    std::mem::forget(out);
}

// @verif prop=C12,C11 id=O12.4f tier=off off_reason="does not fit: >9 GB even with the memchr shim (Vec::extend with a symbolic-length slice inside read_sequence_limit); superseded by O12.4g/h which drain the same Reader through its Read impl into a fixed array" unwind=20 timeout=600 stubs="memchr::memchr->first-occurrence loop (cfg(kani) source shim, documented contract)" bound="sequence text b0 b1 CR LF b2 CR LF '>' (symbolic base bytes) delivered in two fill_buf windows split after byte 2, 3 (between CR and LF), 4, 6 (one run each; concrete split positions, R13): bases read == b0 b1 b2, no terminator byte emitted, stops before '>'" fns="fasta::io::reader::sequence::Reader::fill_buf,consume_empty_lines,read_sequence_limit"
#[kani::proof]
#[kani::unwind(20)]
fn c12_fasta_sequence_reader_crlf_split_anywhere() {
    seq_case(2);
    seq_case(3);
    seq_case(4);
    seq_case(6);
}
