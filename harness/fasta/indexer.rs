// Kani harnesses mounted inside noodles-fasta/src/io/indexer.rs (sees consume_sequence_line).
#![allow(unused_imports, dead_code)]

#[path = "/verif/harness/common.rs"]
mod common;

use std::io::{self, BufRead, Read};

use self::common::*;
use super::*;

/// cpuid inline asm is not executable by Kani: report "no optional CPU features", so that memchr's
/// runtime dispatch takes its (real) SSE2 implementation
pub fn fake_cpuid(_leaf: u32, _sub_leaf: u32) -> std::arch::x86_64::CpuidResult {
    std::arch::x86_64::CpuidResult { eax: 0, ebx: 0, ecx: 0, edx: 0 }
}

fn base(b: u8) -> bool {
    b != b'\r' && b != b'\n' && b != b'>'
}

// @verif prop=C12,C11 id=O12.4c tier=quick unwind=10 stubs="memchr::memchr->first-occurrence loop (cfg(kani) source shim, documented contract)" bound="line b0 b1 CR LF followed by b2 (2 symbolic bases, CRLF), delivered split in two at ANY offset (one solver-placed partial fill_buf window): (line width, bases) == (4, 2) and the scanner stops after the LF" fns="fasta::io::indexer::consume_sequence_line,count_bases"
#[kani::proof]
#[kani::unwind(10)]
fn c12_fasta_consume_sequence_line_crlf_any_windows() {
    let b: [u8; 3] = kani::any();
    kani::assume(base(b[0]) && base(b[1]) && base(b[2]));
    let data = [b[0], b[1], b'\r', b'\n', b[2]];
    let mut src = ChunkyBuf::new(&data).with_partial_budget(1);
    let (width, bases) = consume_sequence_line(&mut src).unwrap();
    assert!(width == 4 && bases == 2);
    assert_eq!(src.pos, 4);
}

// @verif prop=C12,C11 id=O12.4d tier=quick unwind=10 stubs="memchr::memchr->first-occurrence loop (cfg(kani) source shim, documented contract)" bound="last line b0 b1 without terminator then EOF / then '>' (symbolic choice), split in two at any offset: (2, 2)" fns="consume_sequence_line"
#[kani::proof]
#[kani::unwind(10)]
fn c12_fasta_consume_sequence_line_unterminated() {
    let b: [u8; 2] = kani::any();
    kani::assume(base(b[0]) && base(b[1]));
    let data = [b[0], b[1], b'\n', b'>'];
    let mut src = ChunkyBuf::new(&data).with_partial_budget(1);
    let (width, bases) = consume_sequence_line(&mut src).unwrap();
    assert!(width == 3 && bases == 2);
    // next call is at a definition line: consumes nothing
    let (w2, b2) = consume_sequence_line(&mut src).unwrap();
    assert!(w2 == 0 && b2 == 0 && src.pos == 3);
}

fn line_case(k: usize) {
    let b: [u8; 3] = kani::any();
    kani::assume(base(b[0]) && base(b[1]) && base(b[2]));
    let data = [b[0], b[1], b'\r', b'\n', b[2]];
    let mut src = ChunkyBuf::new(&data).split_at(k);
    let (width, bases) = consume_sequence_line(&mut src).unwrap();
    assert!(width == 4 && bases == 2);
    assert_eq!(src.pos, 4);
}

// @verif prop=C12,C11 id=O12.4e tier=thorough unwind=20 timeout=600 stubs="memchr::memchr->first-occurrence loop (cfg(kani) source shim, documented contract)" bound="line b0 b1 CR LF followed by b2 (symbolic base bytes), delivered in two fill_buf windows split after byte 1, 2, 3 (between CR and LF) or 4 (one run each; split positions are concrete, R13): (line width, bases) == (4, 2), scanner stops after the LF" fns="fasta::io::indexer::consume_sequence_line,count_bases"
#[kani::proof]
#[kani::unwind(20)]
fn c12_fasta_consume_sequence_line_crlf_split_anywhere() {
    line_case(1);
    line_case(2);
    line_case(3);
    line_case(4);
}
