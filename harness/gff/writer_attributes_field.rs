// Kani harnesses mounted inside noodles-gff/src/io/writer/line/record/attributes/field.rs (sees the
// writer's percent_encode); the reader side comes through the cfg(kani) re-export
// crate::record::attributes::field::verif_kani_parse_value.
#![allow(unused_imports, dead_code)]

use bstr::ByteSlice;

use super::*;
use crate::record::attributes::field::{Value as LazyValue, verif_kani_parse_value as parse_value};

fn reserved(b: u8) -> bool {
    b < 0x20 || b == 0x7f || b == b'\t' || b == b'\n' || b == b'\r' || b == b';' || b == b'=' || b == b'&' || b == b','
}

fn hex(b: u8) -> bool {
    (b >= b'0' && b <= b'9') || (b >= b'A' && b <= b'F')
}

/// R10: the decoder runs on a stack copy of the encoder's output with a CONCRETE length (one call per
/// possible output length); feeding it the heap String directly exhausts memory (>14 GB for 1 byte).
fn reads_back<const M: usize>(e: &[u8], v: &[u8]) {
    let mut a = [0u8; M];
    let mut k = 0;
    while k < M {
        a[k] = e[k];
        k += 1;
    }
    match parse_value(&a[..]) {
        LazyValue::String(s) => {
            assert_eq!(s.len(), v.len());
            let j: usize = kani::any();
            kani::assume(j < v.len());
            assert_eq!(s[j], v[j]);
            std::mem::forget(s);
        }
        LazyValue::Array(a) => {
            assert!(false, "a written string value reads back as an array");
            std::mem::forget(a);
        }
    }
}

fn value_case<const L: usize>() {
    let v: [u8; L] = kani::any();
    let enc = percent_encode(v[..].as_bstr());
    let e = enc.as_bytes();
    // (1) nothing reserved survives in the written text; '%' only starts an escape
    let i: usize = kani::any();
    kani::assume(i < e.len());
    assert!(!reserved(e[i]), "a GFF3 reserved character is written unescaped");
    if e[i] == b'%' {
        assert!(i + 2 < e.len() && hex(e[i + 1]) && hex(e[i + 2]));
    }
    // (2) the reader's lazy value parser returns the original bytes, as a string (never an array:
    //     the writer escapes ',')
    match e.len() {
        1 => reads_back::<1>(e, &v),
        2 => reads_back::<2>(e, &v),
        3 => reads_back::<3>(e, &v),
        4 => reads_back::<4>(e, &v),
        6 => reads_back::<6>(e, &v),
        _ => assert!(false, "encoded length is not a sum of 1s and 3s"),
    }
    std::mem::forget(enc);
}

// @verif prop=C18 id=O18.1/1 tier=quick unwind=6 timeout=900 bound="EVERY 1-byte attribute value (all 256 bytes): the GFF3 writer's percent_encode output contains no reserved character (control, tab, LF, CR, ';', '=', '&', ',') and '%' only as %XX; the reader's parse_value on that text is Value::String(original byte) -- the percent layer of attribute values is an inverse pair" fns="gff::io::writer::line::record::attributes::field::percent_encode,gff::record::attributes::field::value::parse_value,is_array,percent_decode,percent_encoding::{percent_encode,percent_decode}"
#[kani::proof]
#[kani::unwind(6)]
fn c18_gff_attribute_value_percent_layer_1() {
    value_case::<1>();
}

// @verif prop=C18 id=O18.1/2 tier=off off_reason="does not fit: >14 GB / >900 s for 2 bytes (String/Cow growth in percent_encoding on both sides)" unwind=9 timeout=900 bound="as O18.1/1 for EVERY 2-byte attribute value (incl. '%' followed by hex digits, ',' and multi-byte UTF-8 fragments)" fns="gff::io::writer::line::record::attributes::field::percent_encode,gff::record::attributes::field::value::parse_value,is_array,percent_decode"
#[kani::proof]
#[kani::unwind(9)]
fn c18_gff_attribute_value_percent_layer_2() {
    value_case::<2>();
}

fn writer_case<const L: usize>() {
    let v: [u8; L] = kani::any();
    let enc = percent_encode(v[..].as_bstr());
    let e = enc.as_bytes();
    assert!(e.len() >= L && e.len() <= 3 * L);
    let i: usize = kani::any();
    kani::assume(i < e.len());
    assert!(!reserved(e[i]), "a GFF3 reserved character is written unescaped");
    if e[i] == b'%' {
        assert!(i + 2 < e.len() && hex(e[i + 1]) && hex(e[i + 2]));
    }
    // bytes that need no escape are written as they are: an unreserved-only value is unchanged
    let j: usize = kani::any();
    kani::assume(j < L);
    if e.len() == L {
        assert_eq!(e[j], v[j]);
    }
    std::mem::forget(enc);
}

// @verif prop=C18 id=O18.1w/2 tier=thorough unwind=8 bound="writer half for EVERY 2-byte attribute value: percent_encode output has no reserved character, '%' only as %XX (upper-case hex), length in L..=3L, and an output of unchanged length is the value itself" fns="gff::io::writer::line::record::attributes::field::percent_encode,percent_encoding::percent_encode"
#[kani::proof]
#[kani::unwind(8)]
fn c18_gff_attribute_value_writer_escapes_2() {
    writer_case::<2>();
}

// @verif prop=C18 id=O18.1w/3 tier=off off_reason="does not fit: >14 GB for 3 bytes (String growth inside percent_encoding)" unwind=11 bound="as O18.1w/2 for EVERY 3-byte value" fns="gff::io::writer::line::record::attributes::field::percent_encode"
#[kani::proof]
#[kani::unwind(11)]
fn c18_gff_attribute_value_writer_escapes_3() {
    writer_case::<3>();
}
