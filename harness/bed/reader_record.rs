// Kani harnesses mounted inside noodles-bed/src/io/reader/record.rs.
#![allow(unused_imports, dead_code)]

#[path = "/verif/harness/common.rs"]
mod common;

use std::io::{self, BufRead, Read};

use self::common::*;
use super::*;

/// Models of `memchr::memchr` / `memchr::memchr2` used under cfg(kani) by this file's scanners (hook
/// "memchr shim"): the documented contract -- index of the FIRST byte equal to (one of) the needle(s),
/// None if absent -- as a plain loop; see DESIGN R15/R18.  Part of the trusted base.
pub(crate) fn memchr_model(needle: u8, haystack: &[u8]) -> Option<usize> {
    let mut i = 0;
    while i < haystack.len() {
        if haystack[i] == needle {
            return Some(i);
        }
        i += 1;
    }
    None
}

pub(crate) fn memchr2_model(n1: u8, n2: u8, haystack: &[u8]) -> Option<usize> {
    let mut i = 0;
    while i < haystack.len() {
        if haystack[i] == n1 || haystack[i] == n2 {
            return Some(i);
        }
        i += 1;
    }
    None
}

/// representation invariant that every accessor of `Record<3>` relies on when it slices `buf`
fn bounds_in_range(record: &Record<3>) {
    let f = &record.0;
    let e = f.bounds.standard_fields_ends;
    assert!(e[0] <= e[1], "standard field 1 starts after it ends");
    assert!(e[1] <= e[2], "standard field 2 starts after it ends");
    assert!(e[2] <= f.buf.len(), "standard fields end beyond the line buffer");
    let i: usize = kani::any();
    if let Some(r) = f.bounds.get(i) {
        assert!(r.start <= r.end, "other field starts after it ends");
        assert!(r.end <= f.buf.len(), "other field ends beyond the line buffer");
    }
}

fn bed3_case<const L: usize>() {
    let data: [u8; L] = kani::any();
    let mut src = ChunkyBuf::new(&data).with_partial_budget(0);
    let mut record = Record::<3>::default();
    record.0.buf.reserve(16);
    record.0.bounds.other_fields_ends.reserve(8);
    match read_record_3(&mut src, &mut record) {
        Ok(n) => {
            assert!(n <= L);
            bounds_in_range(&record);
            kani::cover!(n == L && record.0.bounds.other_fields_ends.len() == 1);
        }
        Err(e) => std::mem::forget(e),
    }
    std::mem::forget(record);
}

// @verif prop=C15,C18 id=O15.bed.bounds/5 tier=off off_reason="does not fit: >900 s even in one window (Vec::extend with lengths that depend on symbolic bytes, x4 fields); the inductive step O15.bed.field-step decides the same invariant per read_field call" unwind=8 stubs="memchr::{memchr,memchr2}->first-occurrence loops (cfg(kani) source shim, documented contract); alloc::fmt::format->empty String" bound="ARBITRARY 5-byte input (every byte symbolic: tabs, CR, LF, '#', anything) through read_record_3 in one fill_buf window: if it returns Ok, the field bounds are monotone and inside the line buffer (what every Record<3> accessor slices with), for the standard fields and for ANY other-field index" fns="bed::io::reader::record::read_record_3,read_required_field,read_field,read_other_fields,skip_comment_lines,discard_line,Bounds::get"
#[kani::proof]
#[kani::unwind(8)]
#[kani::stub(std::fmt::format, stub_fmt_format)]
fn c15_bed3_bounds_in_range_5() {
    bed3_case::<5>();
}

fn read_field_step<const L: usize>() {
    // arbitrary pre-state: what earlier fields of the line left in the line buffer (2 arbitrary bytes)
    let pre: [u8; 2] = kani::any();
    let mut dst: Vec<u8> = Vec::with_capacity(8);
    dst.push(pre[0]);
    dst.push(pre[1]);
    let data: [u8; L] = kani::any();
    let mut src = ChunkyBuf::new(&data);
    match read_field(&mut src, &mut dst) {
        Ok((n, is_eol)) => {
            assert!(n <= L);
            // one step of the bounds invariant: a field never takes bytes away from the fields before
            // it, so every end offset recorded so far stays <= dst.len()
            assert!(dst.len() >= 2, "read_field removed a byte of a previous field");
            assert!(dst[0] == pre[0] && dst[1] == pre[1]);
            kani::cover!(is_eol && dst.len() == 2 && n == 2);
        }
        Err(e) => std::mem::forget(e),
    }
    std::mem::forget(dst);
}

// @verif prop=C15,C18 id=O15.bed.field-step/2 tier=quick unwind=6 stubs="memchr::memchr2->first-occurrence loop (cfg(kani) source shim, documented contract)" bound="ONE read_field step from an ARBITRARY line-buffer pre-state (2 arbitrary bytes left by earlier fields) over an ARBITRARY 2-byte input window (tab, CR, LF, anything): the bytes of earlier fields are still there afterwards (len never drops below the recorded ends, contents unchanged) -- the inductive step of 'field bounds stay inside the line buffer' that every Record<N> accessor slices with" fns="bed::io::reader::record::read_field"
#[kani::proof]
#[kani::unwind(6)]
fn c15_bed_read_field_keeps_previous_fields_2() {
    read_field_step::<2>();
}

fn plain(b: u8) -> bool {
    b != b'\t' && b != b'\n' && b != b'\r' && b != b'#'
}

fn reuse_case(budget: u8, symbolic_line: bool) {
    let b: [u8; 3] = if symbolic_line { kani::any() } else { *b"c12" };
    kani::assume(plain(b[0]) && plain(b[1]) && plain(b[2]));
    let data = [b[0], b'\t', b[1], b'\t', b[2], b'\n'];
    let mut src = ChunkyBuf::new(&data).with_partial_budget(budget);
    let stale: [u8; 2] = kani::any();
    let mut record = Record::<3>::default();
    record.0.buf.clear();
    record.0.buf.reserve(16);
    record.0.buf.push(stale[0]);
    record.0.buf.push(stale[1]);
    record.0.bounds.other_fields_ends.reserve(4);
    record.0.bounds.other_fields_ends.push(kani::any());
    record.0.bounds.standard_fields_ends = kani::any();
    let n = read_record_3(&mut src, &mut record).unwrap();
    assert_eq!(n, 6);
    let f = &record.0;
    assert!(f.buf.len() == 3 && f.buf[0] == b[0] && f.buf[1] == b[1] && f.buf[2] == b[2]);
    let e = f.bounds.standard_fields_ends;
    assert!(e[0] == 1 && e[1] == 2 && e[2] == 3);
    assert!(f.bounds.other_fields_ends.is_empty(), "a field of the previous line survives in the reused record");
    std::mem::forget(record);
}

// @verif prop=C18 id=O18.bed.reuse tier=quick unwind=8 stubs="memchr::{memchr,memchr2}->first-occurrence loops (cfg(kani) source shim, documented contract); alloc::fmt::format->empty String" bound="the CONCRETE BED3 line 'c TAB 1 TAB 2 LF' in one fill_buf window (symbolic line bytes do not fit, see O18.bed.reuse/sym) read into a Record<3> whose PREVIOUS content is ARBITRARY (two stale line-buffer bytes, one stale other-field end with any value, any stale standard-field ends): afterwards the record holds exactly the 3 fields of this line and NO other fields -- nothing of the previous line survives record reuse" fns="bed::io::reader::record::read_record_3,read_required_field,read_field,read_other_fields,skip_comment_lines"
#[kani::proof]
#[kani::unwind(8)]
#[kani::stub(std::fmt::format, stub_fmt_format)]
fn c18_bed3_record_reuse_drops_previous_line() {
    reuse_case(0, false);
}

// @verif prop=C18 id=O18.bed.reuse/sym tier=off off_reason="does not fit: >900 s (three Vec::extend calls whose lengths depend on symbolic bytes through the delimiter search)" unwind=8 bound="as O18.bed.reuse with 3 symbolic plain line bytes" fns="bed::io::reader::record::read_record_3"
#[kani::proof]
#[kani::unwind(8)]
#[kani::stub(std::fmt::format, stub_fmt_format)]
fn c18_bed3_record_reuse_symbolic_line() {
    reuse_case(0, true);
}

// @verif prop=C18,C12 id=O18.bed.reuse/split tier=off off_reason="does not fit: >900 s (as O18.bed.reuse/sym)" unwind=8 stubs="memchr::{memchr,memchr2}->first-occurrence loops (cfg(kani) source shim, documented contract); alloc::fmt::format->empty String" bound="as O18.bed.reuse, with the line delivered split in two fill_buf windows at ANY offset (solver-placed): same record" fns="bed::io::reader::record::read_record_3,read_required_field,read_field,read_other_fields,skip_comment_lines"
#[kani::proof]
#[kani::unwind(8)]
#[kani::stub(std::fmt::format, stub_fmt_format)]
fn c18_bed3_record_reuse_line_split_anywhere() {
    reuse_case(1, true);
}

// @verif prop=C15,C18 id=O15.bed.field-step/3 tier=thorough unwind=7 stubs="memchr::memchr2->first-occurrence loop (cfg(kani) source shim, documented contract)" bound="as O15.bed.field-step/2 with an ARBITRARY 3-byte input delivered in solver-chosen fill_buf windows" fns="bed::io::reader::record::read_field"
#[kani::proof]
#[kani::unwind(7)]
fn c15_bed_read_field_keeps_previous_fields_3() {
    read_field_step::<3>();
}
